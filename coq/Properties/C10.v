(* C10 -- gradient-based learners optimise the objective they document.
   Model: Model/Objectives.v holds the DOCUMENTED objectives of NCA, MLKR and LMNN, written from the
   papers; the values the code's loss functions hand to the optimiser are compared with them on
   binary64 (Coq-side exp: Base/FExp.v) and the code's gradients with central differences of an
   independent evaluation: props/c10.py.
   PARTIAL.  Proved: the stabilised softmax of the code is the documented ratio; for ANY objective and
   ANY sequence of trial points LMNN's accepted iterates have non-increasing objective, the result is
   never worse than the initial transformation, and with no iterations nothing is accepted.
   PROVED as well (C10_nca_gradient, Proofs/C10Grad.v, with Coquelicot's is_derive): for every number of points >= 2,
   every dimension, every k x d transformation L (low rank included), every label vector and every direction E, the
   value NCA hands to the optimiser (Model/NCAGrad.v: the code's softmax / mask / row sums, index by index) IS the
   documented objective, and the gradient it hands over, 2 (X L^T)^T S X with S = W + W^T and diagonal -colsum(W), IS
   the derivative of the documented objective: d/dt nca_obj (L + t E) at t = 0 equals <gradient, E>_F.  The gradient
   model is compared with the code's own gradient on binary64 by props/c10.py (c10_nca_grad).
   The same for MLKR (C10_mlkr_gradient): cost = sum_i (yhat_i - y_i)^2 with yhat = softmax . y is the documented
   leave-one-out regression error, and 4 (X A^T)^T W_sym X is its derivative, for all real-valued targets.
   NOT proved: the same for LMNN's sub-gradient (piecewise; checked per instance by central differences away from kinks);
   that SciPy's L-BFGS-B never returns a worse point than x0 (checked per fit). *)
From Coq Require Import List ZArith Reals Lia.
From Coquelicot Require Import Coquelicot.
From ML Require Import Ops Vec VecR MatR Objectives NCAGrad C10Proof C10Grad.
From ML Require Import PinsC10.
From ML Require Import NPNum C10Src.
From MLgen Require Import Src_nca Src_mlkr.
Import ListNotations.
Open Scope R_scope.

Definition C10_proved_part : Prop :=
  (forall a S : R, 0 < S -> exp (a - ln S) = exp a / S) /\
  (forall (St : Type) (obj : St -> R) iters cur, chain_le St obj (obj cur) (@lmnn_loop ROps St obj cur iters)) /\
  (forall (St : Type) (obj : St -> R) iters cur s, In s (@lmnn_loop ROps St obj cur iters) -> obj s <= obj cur) /\
  (forall (St : Type) (obj : St -> R) cur, @lmnn_loop ROps St obj cur [] = []).

Theorem C10_partial : C10_proved_part.
Proof.
  split; [exact softmax_logsumexp|]. split; [intros; apply lmnn_accept_monotone|].
  split; [intros St obj iters cur s H; apply (lmnn_result_le_init St obj iters cur s H) | intros; reflexivity].
Qed.
Print Assumptions C10_partial.

(* NCA: the value and the gradient handed to the optimiser are the documented objective and its derivative *)
Definition C10_nca_gradient_stmt : Prop :=
  forall (k d : nat) (L E X : Rm) (y : list Z),
    wfmR k d L -> wfmR k d E -> List.Forall (wfvR d) X -> (2 <= length X)%nat -> length y = length X ->
    @nca_loss ROps exp L X y = @nca_obj ROps exp L X y /\
    is_derive (fun t => @nca_obj ROps exp (line L E t) X y) 0 (frobR (@nca_grad ROps exp k d L X y) E).

Theorem C10_nca_gradient : C10_nca_gradient_stmt.
Proof.
  intros k d L E X y HL HE HX Hn Hy. split.
  - symmetry. apply nca_obj_is_loss, Hy.
  - apply (is_derive_ext (fun t => @nca_loss ROps exp (line L E t) X y)).
    + intro t. symmetry. apply nca_obj_is_loss, Hy.
    + apply (nca_gradient_is_derivative k d L E X y HL HE HX Hn).
Qed.
Print Assumptions C10_nca_gradient.

(* non-vacuity: three points in the plane, a rank-one 1 x 2 transformation *)
Example C10_nca_gradient_nonvacuous :
  wfmR 1 2 [[1; 2]] /\ wfmR 1 2 [[0; 1]] /\ List.Forall (wfvR 2) [[0; 0]; [1; 0]; [0; 3]] /\ (2 <= length [[0; 0]; [1; 0]; [0; 3]])%nat.
Proof. repeat split; repeat constructor. Qed.

(* MLKR: the cost and the gradient handed to the optimiser are the documented objective and its derivative *)
Definition C10_mlkr_gradient_stmt : Prop :=
  forall (k d : nat) (L E X : Rm) (yv : Rv),
    wfmR k d L -> wfmR k d E -> List.Forall (wfvR d) X -> (2 <= length X)%nat -> length yv = length X ->
    @mlkr_loss ROps exp L X yv = @mlkr_obj ROps exp L X yv /\
    is_derive (fun t => @mlkr_obj ROps exp (line L E t) X yv) 0 (frobR (@mlkr_grad ROps exp k d L X yv) E).

Theorem C10_mlkr_gradient : C10_mlkr_gradient_stmt.
Proof.
  intros k d L E X yv HL HE HX Hn Hy. split.
  - symmetry. apply mlkr_obj_is_loss, Hy.
  - apply (is_derive_ext (fun t => @mlkr_loss ROps exp (line L E t) X yv)).
    + intro t. symmetry. apply mlkr_obj_is_loss, Hy.
    + apply (mlkr_gradient_is_derivative k d L E X yv HL HE HX Hn).
Qed.
Print Assumptions C10_mlkr_gradient.

(* text-level tie: the functions this property's hand-written model and harness were written from are unchanged
   (digests regenerated from /repo on every run; Proofs/PinsC10.v) *)
Definition C10_source_pins := pins_C10_ok.

(* NCA, source level: NCA._loss_grad_lbfgs as TRANSLATED on this run (gen/Src_nca.v: embedding, pairwise squared distances,
   softmax with the diagonal excluded, mask, row sums, weights, symmetrisation with the diagonal filled by minus the column
   sums, 2 (X L^T)^T S X), called with the mask NCA.fit builds (mask_ij = (y_i == y_j)), returns the documented objective and a
   matrix whose Frobenius product with every direction E is the derivative of the documented objective along E. *)
Definition C10_nca_source_stmt : Prop :=
  forall (k d : nat) (L E X : Rm) (y : list Z),
    wfmR k d L -> wfmR k d E -> List.Forall (wfvR d) X -> (2 <= length X)%nat -> length y = length X ->
    let r := @nca_src ROps exp L X (label_mask y) in
    fst r = @nca_obj ROps exp L X y /\
    snd r = @nca_grad ROps exp k d L X y /\
    is_derive (fun t => @nca_obj ROps exp (line L E t) X y) 0 (frobR (snd r) E).

Theorem C10_nca_source : C10_nca_source_stmt.
Proof.
  intros k d L E X y HL HE HX Hn Hy r.
  destruct (C10_nca_gradient k d L E X y HL HE HX Hn Hy) as [V G].
  assert (EG: snd r = @nca_grad ROps exp k d L X y) by (apply (nca_src_grad exp k d L X y HL HX); [lia | exact Hy]).
  split; [|split].
  - unfold r. rewrite (nca_src_loss exp d L X y HX Hy). exact V.
  - exact EG.
  - rewrite EG. exact G.
Qed.
Print Assumptions C10_nca_source.

(* MLKR, source level: MLKR._loss as TRANSLATED on this run (gen/Src_mlkr.v: embedding, pairwise squared distances, softmax
   with the diagonal excluded, yhat = softmax . y, residuals, cost, W = softmax * ydiff_i * (y_j - yhat_i), symmetrisation with the
   diagonal filled by minus the column sums, 4 (X A^T)^T W_sym X) returns the documented leave-one-out regression error and a
   matrix whose Frobenius product with every direction E is the derivative of that error along E, for all real targets. *)
Definition C10_mlkr_source_stmt : Prop :=
  forall (k d : nat) (L E X : Rm) (yv : Rv),
    wfmR k d L -> wfmR k d E -> List.Forall (wfvR d) X -> (2 <= length X)%nat -> length yv = length X ->
    let r := @mlkr_src ROps exp L X yv in
    fst r = @mlkr_obj ROps exp L X yv /\
    snd r = @mlkr_grad ROps exp k d L X yv /\
    is_derive (fun t => @mlkr_obj ROps exp (line L E t) X yv) 0 (frobR (snd r) E).

Theorem C10_mlkr_source : C10_mlkr_source_stmt.
Proof.
  intros k d L E X yv HL HE HX Hn Hy r.
  destruct (C10_mlkr_gradient k d L E X yv HL HE HX Hn Hy) as [V G].
  assert (EG: snd r = @mlkr_grad ROps exp k d L X yv) by (apply (mlkr_src_grad exp k d L X yv HL HX); [lia | exact Hy]).
  split; [|split].
  - unfold r. rewrite (mlkr_src_loss exp d L X yv HX Hy). exact V.
  - exact EG.
  - rewrite EG. exact G.
Qed.
Print Assumptions C10_mlkr_source.

(* non-vacuity of C10_mlkr_source: three points in the plane, a rank-one 1 x 2 transformation, real targets *)
Example C10_mlkr_source_nonvacuous :
  wfmR 1 2 [[1; 2]] /\ wfmR 1 2 [[0; 1]] /\ List.Forall (wfvR 2) [[0; 0]; [1; 0]; [0; 3]] /\ (2 <= length [[0; 0]; [1; 0]; [0; 3]])%nat /\
  length [1; -2; / 2] = length [[0; 0]; [1; 0]; [0; 3]].
Proof. repeat split; repeat constructor. Qed.
