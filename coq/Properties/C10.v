(* C10 -- gradient-based learners optimise the objective they document.
   Model: Model/Objectives.v holds the DOCUMENTED objectives of NCA, MLKR and LMNN, written from the
   papers; the values the code's loss functions hand to the optimiser are compared with them on
   binary64 (Coq-side exp: Base/FExp.v) and the code's gradients with central differences of an
   independent evaluation: props/c10.py.
   PARTIAL.  Proved: the stabilised softmax of the code is the documented ratio; for ANY objective and
   ANY sequence of trial points LMNN's accepted iterates have non-increasing objective, the result is
   never worse than the initial transformation, and with no iterations nothing is accepted.
   NOT proved: that the analytic gradients are the derivatives for all n, d (checked per instance);
   that SciPy's L-BFGS-B never returns a worse point than x0 (checked per fit). *)
From Coq Require Import List Reals.
From ML Require Import Ops Vec VecR Objectives C10Proof.
Import ListNotations.
Open Scope R_scope.

Definition C10_proved_part : Prop :=
  (forall a S : R, 0 < S -> exp (a - ln S) = exp a / S) /\
  (forall (St : Type) (obj : St -> R) iters cur, chain_le St obj (obj cur) (@lmnn_loop ROps St obj cur iters)) /\
  (forall (St : Type) (obj : St -> R) iters cur s, In s (@lmnn_loop ROps St obj cur iters) -> obj s <= obj cur) /\
  (forall (St : Type) (obj : St -> R) cur, @lmnn_loop ROps St obj cur [] = []).

Theorem C10_partial : C10_proved_part.
Proof.
  split; [exact softmax_logsumexp|]. split; [intros; apply lmnn_accept_monotone|].
  split; [intros St obj iters cur s H; apply (lmnn_result_le_init St obj iters cur s H) | intros; reflexivity].
Qed.
Print Assumptions C10_partial.
