(* C20 -- PSD matrices are converted, validated and initialised as documented.
   Model: Model/PSDConv.v (hand-written from _util.py; _check_sdp_from_eigen and _auto_select_init
   are compared bit-exactly / exhaustively with the code by props/c20.py).  Eigen-decomposition
   and Cholesky are oracles: the theorems hold for ANY returned (w, V); that L^T L reproduces M is
   certified per run on exact rationals. *)
From Coq Require Import List ZArith Reals Lra.
From ML Require Import Ops Vec VecR MatR LinAlg PSDConv Mahalanobis MahalanobisR C20Proof CovProof.
From ML Require Import PinsC20.
From ML Require Import NPNum C20Src.
From MLgen Require Import Src_psd.
Import ListNotations.
Open Scope R_scope.

Definition C20_statement : Prop :=
  (* eigenvalue sign test: ValueError iff tol < 0; NonPSDError iff an eigenvalue < -tol;
     otherwise "definite" iff every eigenvalue is farther than tol from zero (so the zero matrix, whose default tol is 0, is
     not definite) *)
  (forall (w : Rv) (tol : R),
     (check_sdpR w tol = SdpValueError <-> tol < 0) /\
     (0 <= tol -> (check_sdpR w tol = SdpNonPSD <-> exists a, In a w /\ a < - tol)) /\
     (0 <= tol -> (check_sdpR w tol = SdpNotDefinite <->
                   (forall a, In a w -> - tol <= a) /\ exists a, In a w /\ Rabs a <= tol)) /\
     (0 <= tol -> (check_sdpR w tol = SdpDefinite <-> forall a, In a w -> - tol <= a /\ tol < Rabs a))) /\
  (* diagonal shortcut: L = diag(sqrt(max(0, m_ii))), so L^T L = diag(max(0, m_ii)) *)
  (forall (m : Rv) i, (i < length m)%nat -> (nth i (@cfm_diag ROps m) 0)^2 = Rmax 0 (nth i m 0)) /\
  (* eigen fallback: for any (w, V), |L x|^2 = sum_k max(0,w_k) (v_k.x)^2, i.e. L^T L = V diag(max(0,w)) V^T;
     with w >= 0 this is V diag(w) V^T = M *)
  (forall (w : Rv) (V : Rm) x, vsumsqR (mvmulR (@cfm_eigen ROps w V) x) = wsq (map (Rmax 0) w) V x) /\
  (forall d (w : Rv) (V : Rm) x, Forall (wfvR d) V -> wfvR d x -> Forall (fun a => 0 <= a) w ->
     vsumsqR (mvmulR (@cfm_eigen ROps w V) x) = quadformR (wgramR d w V) x) /\
  (* whatever factor L of M is returned, the distance is that of M *)
  (forall d (L1 L2 : Rm), Forall (wfvR d) L1 -> Forall (wfvR d) L2 ->
     (forall x, wfvR d x -> quadformR (mahalanobisR d L1) x = quadformR (mahalanobisR d L2) x) ->
     forall x x', wfvR d x -> wfvR d x' -> distR L1 x x' = distR L2 x x') /\
  (* any non-negative combination of outer products (clipped spectrum, SCML's metric) is PSD *)
  (forall d (w : Rv) (B : Rm), Forall (wfvR d) B -> Forall (fun a => 0 <= a) w -> PSDop d (wgramR d w B)) /\
  (* the 'auto' initialisation rule *)
  (forall has_classes d n nc ncls,
     (auto_select_init has_classes d n nc ncls = InitLda <->
        has_classes = true /\ (Z.of_nat nc <= Z.min (Z.of_nat d) (ncls - 1))%Z) /\
     (auto_select_init has_classes d n nc ncls = InitPca <->
        ~ (has_classes = true /\ (Z.of_nat nc <= Z.min (Z.of_nat d) (ncls - 1))%Z) /\ (nc < Nat.min d n)%nat) /\
     (auto_select_init has_classes d n nc ncls = InitIdentity <->
        ~ (has_classes = true /\ (Z.of_nat nc <= Z.min (Z.of_nat d) (ncls - 1))%Z) /\ (Nat.min d n <= nc)%nat)).

Theorem C20_partial : C20_statement.
Proof.
  exact (conj sdp_check_spec (conj cfm_diag_sq (conj cfm_eigen_form (conj cfm_eigen_psd
        (conj factor_distance_unique (conj wgram_psd auto_select_rule)))))).
Qed.
Print Assumptions C20_partial.

(* Cholesky branch: L = C^T.  For ANY square C: |L x|^2 = x . C (C^T x); hence whenever the factor returned by the
   Cholesky oracle satisfies C C^T = M (as operators), L^T L reproduces M along every direction *)
Definition C20_cholesky_statement : Prop :=
  forall d (C M : Rm) (x : Rv), C <> [] -> length C = d -> Forall (wfvR d) C -> wfvR d x ->
    (forall y, wfvR d y -> mvmulR C (mvmulR (transpR C) y) = mvmulR M y) ->
    vsumsqR (mvmulR (@cfm_chol ROps C) x) = quadformR M x.
Theorem C20_cholesky : C20_cholesky_statement.
Proof. exact cfm_chol_form. Qed.
Print Assumptions C20_cholesky.
(* Not mechanised: that numpy's Cholesky factor satisfies C C^T = M, and the pseudo-inverse from an
   eigen-decomposition, satisfy their equations only per run (exact-rational certificates). *)

Example C20_nonvacuous : check_sdpR [1; 2; -1/4] (1/2) = SdpNotDefinite /\ check_sdpR [1; -1] (1/2) = SdpNonPSD.
Proof.
  split.
  - apply (proj1 (proj2 (proj2 (sdp_check_spec [1; 2; -1/4] (1/2))))); [lra|]. split.
    + intros a [<-|[<-|[<-|[]]]]; lra.
    + exists (-1/4). split; [cbn; auto|]. rewrite Rabs_left; lra.
  - apply (proj1 (proj2 (sdp_check_spec [1; -1] (1/2)))); [lra|]. exists (-1). split; [cbn; auto | lra].
Qed.

(* text-level tie: the functions this property's hand-written model and harness were written from are unchanged
   (digests regenerated from /repo on every run; Proofs/PinsC20.v) *)
Definition C20_source_pins := pins_C20_ok.

(* the translated source (gen/Src_psd.v): _check_sdp_from_eigen (default and explicit tolerance) and the two explicit
   branches of components_from_metric are the model's, so the specification above is that of the code as it reads now *)
Definition C20_source_stmt : Prop :=
  (forall (eps : R) (w : Rv) (tol_arg : option R),
     @src_check_sdp ROps eps w tol_arg =
     @check_sdp ROps w (match tol_arg with None => @default_tol ROps eps w | Some x => x end)) /\
  (forall m : Rv, @src_cfm_diag ROps m = @cfm_diag ROps m) /\
  (forall (w : Rv) (V : Rm), @src_cfm_eigen ROps w V = @cfm_eigen ROps w V) /\
  (* _auto_select_init as translated (its guard chain over integers) is the rule of the statement above *)
  (forall (hc : bool) (d n nc : nat) (ncls : Z),
     src_auto_select_init hc (Z.of_nat d) (Z.of_nat n) (Z.of_nat nc) ncls = auto_select_init hc d n nc ncls).

Theorem C20_source : C20_source_stmt.
Proof. exact (conj src_check_sdp_eq (conj src_cfm_diag_eq (conj src_cfm_eigen_eq src_auto_select_init_eq))). Qed.
Print Assumptions C20_source.
