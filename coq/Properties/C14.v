(* C14 -- MMC returns a PSD matrix that satisfies its similarity budget.
   Model: Model/MMC.v.  The outer accept/reject loop is modelled over ABSTRACT oracles (inner
   projection with its `satisfy` flag, objective comparison, ascent steps), so the theorems hold
   for any eigen-solver, any max_iter, max_proj and tol.  Tie: exact-rational certificate on the
   fitted matrix (PSD by LDL^T, budget recomputed from the pairs and the observed initial matrix),
   props/c14.py. *)
From Coq Require Import List Reals.
From ML Require Import Ops Vec VecR MatR LinAlg NPNum MMC C14Proof C14Src.
From MLgen Require Import Src_mmc.
From ML Require Import PinsC14.
Import ListNotations.
Open Scope R_scope.

Definition C14_statement : Prop :=
  (* fit returns the initial matrix or the last iterate that the projection declared feasible
     (and that improved the objective or came from cycle 0): for every oracle and every budget *)
  (forall (M : Type) project better step_from retry_from (A_init : M) n,
     accepted M project A_init (mmc_result M project better step_from retry_from A_init n)) /\
  (* with max_proj large enough for the first projection to converge, it is a projected feasible iterate *)
  (forall (M : Type) project better step_from retry_from (A_init : M) n,
     snd (project A_init) = true -> (0 < n)%nat ->
     exists Y, project Y = (mmc_result M project better step_from retry_from A_init n, true)) /\
  (* the projection's last step, eigenvalue clipping, gives a PSD matrix for ANY eigen oracle *)
  (forall d (l : Rv) (V : Rm), Forall (wfvR d) V -> PSDop d (@clip_form ROps d l V)) /\
  (* the diagonal variant keeps every weight non-negative *)
  (forall (w step : Rv) lambd, Forall (fun a => 0 <= a) (@diag_step ROps w step lambd)).

Theorem C14_partial : C14_statement.
Proof.
  split; [intros; apply mmc_result_cases|]. split; [intros; apply mmc_first_cycle; auto|].
  split; [intros; apply clip_form_psd; auto | intros; apply diag_step_nonneg].
Qed.
Print Assumptions C14_partial.
(* Not mechanised: that `satisfy` means relative budget violation < 1% (it is the code's test
   (w.A - t)/t < 0.01, re-evaluated on exact rationals per run), and the NaN -> ValueError clause of the
   diagonal variant (explored). *)

(* text-level tie: the functions this property's hand-written model and harness were written from are unchanged
   (digests regenerated from /repo on every run; Proofs/PinsC14.v) *)
Definition C14_source_pins := pins_C14_ok.

(* the translated source (gen/Src_mmc.v): budget, half-space step and exit test of the projection loop *)
Definition C14_source_stmt : Prop :=
  (* w . vec(A) is the sum over the similar pairs of the squared learned distance, for every d x d matrix A; hence the
     translated budget t is one hundredth of that sum under the initial matrix *)
  (forall d (X A : Rm), Forall (wfvR d) X -> wfmR d d A ->
     vdotR (@nn_ravel ROps (@nn_einsum_ij_ik_jk ROps d X X)) (@nn_ravel ROps A) = @fS ROps A X) /\
  (forall d (X A0 : Rm), Forall (wfvR d) X -> wfmR d d A0 ->
     snd (fst (fst (@mmc_setup ROps d X A0))) = @fS ROps A0 X / 100) /\
  (* the first-constraint step lands inside the budget half-space (exactly on its boundary when it moves) *)
  (forall (w x0 : Rv) (t : R), length x0 = length w -> 0 < vdotR w w ->
     let n := @nn_norm_v ROps w in
     let x := @mmc_project1 ROps w t (@nn_div_vs ROps w n) (t / n) x0 in
     vdotR w x <= t /\ (t < vdotR w x0 -> vdotR w x = t) /\ length x = length w) /\
  (* the exit test of the projection loop: `satisfy` means the similar-pair sum is below 1.01 t *)
  (forall d (X A : Rm) (t : R), Forall (wfvR d) X -> wfmR d d A -> 0 < t ->
     @mmc_satisfied ROps (@nn_ravel ROps (@nn_einsum_ij_ik_jk ROps d X X)) t A = true ->
     @fS ROps A X < (101 / 100) * t).

Theorem C14_source : C14_source_stmt.
Proof.
  split; [exact mmc_w_is_fS|]. split.
  - intros d X A0 HX HA. unfold mmc_setup. cbn [fst snd]. unfold nn_dot_vv. rewrite (mmc_w_is_fS d X A0 HX HA). reflexivity.
  - split; [exact mmc_project1_budget|].
    intros d X A t HX HA Ht H. rewrite <- (mmc_w_is_fS d X A HX HA). apply mmc_satisfied_budget; auto.
Qed.
Print Assumptions C14_source.
Definition C14_source_skeleton := mmc_skeleton_ok.

(* the outer loop of _fit_full as TRANSLATED on this run (gen/Src_mmc.v: the accept / reject decision `satisfy and (obj > obj_previous
   or cycle == 0)`, the updates of A, A_old, alpha and the direction in either branch, the convergence break), with its real
   step-size history; the projected matrix and its flag, the objective values, the direction and the convergence test are oracle
   records, one per cycle.  For every carrier, every number of cycles and every oracle: the matrix fit returns (A_old) is the one it
   started with or a projected iterate whose `satisfy` flag was set - by C14_source's last clause, one that meets the 1% budget. *)
Definition C14_outer_source_stmt : Prop :=
  forall (orc : list (Rm * bool * R * R * Rm * bool)) cycle st,
    mmc_kept (@mmc_cycles ROps cycle st orc) = mmc_kept st \/
    exists A op ob Mn stop, In (A, true, op, ob, Mn, stop) orc /\ mmc_kept (@mmc_cycles ROps cycle st orc) = A.

Theorem C14_outer_source : C14_outer_source_stmt.
Proof. exact (@mmc_kept_feasible ROps). Qed.
Print Assumptions C14_outer_source.
