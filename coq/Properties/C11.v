(* C11 -- ITML returns the optimum of its LogDet program (KKT certificate).
   Model: Model/ITML.v (hand-written from itml.py; tied to the code by re-running the projections on
   binary64 and comparing A, lambda and the slack bounds: props/c11.py).
   PROVED, for every dimension, every constraint set (non-collapsed pairs), every prior A0 that is
   symmetric positive definite with two-sided inverse B0, every gamma in (0, inf], positive bounds
   and EVERY number of sweeps n:  the model's A is symmetric positive definite, has a two-sided
   inverse B with  y.(B x) = y.(B0 x) + sum_i y_i lambda_i (v_i.x)(v_i.y)   [i.e.
   A^-1 - A0^-1 = sum_i y_i lambda_i v_i v_i^T], all lambda_i >= 0 and all slack bounds > 0.
   PROVED as well (C11_prior_returned): a prior under which every similar pair is already within
   the upper bound and every dissimilar pair beyond the lower bound is returned unchanged -- after
   every number of sweeps the state is exactly the initial one (A = A0, every lambda_i = 0).
   PROVED as well (C11_loop): the loop with the code's stopping test (change of the dual variables below tol, or
   all of them zero, or max_iter sweeps) returns the state after exactly n_iter_ + 1 sweeps with n_iter_ < max_iter,
   so the invariant above holds for what fit returns; (C11_converged): in any state the solver can reach, a
   sweep that changes no dual variable (the stopping test in exact form) changes nothing at all, and every
   constraint is then inactive (lambda_i = 0, slack-adjusted bound satisfied) or tight (v_i^T A v_i = xi_i).
   PROVED as well (C11_source): the statements of itml.py's loop as TRANSLATED on this run (gen/Src_itml.v: the two
   update blocks, gamma_proj, the stopping test; the set-up and post-loop statements pinned as text) compute the
   model's loop, so everything above holds for what the translated source returns.
   NOT mechanised: that such a KKT point is the unique optimum of the LogDet problem (strict convexity). *)
From Coq Require Import List Reals Lra Psatz.
From ML Require Import Ops Vec VecR MatR PSD ITML C11Proof C11Fixed C11Conv C11Src.
From ML Require Import PinsC11.
From MLgen Require Import Src_itml.
Import ListNotations.
Open Scope R_scope.

Definition C11_proved_part : Prop :=
  forall (d : nat) (g : option R) (cs : list cstrR) (A0 B0 : Rm) (lo hi : R) (n : nat),
    gamma_ok g ->                                  (* gamma = None stands for gamma = inf *)
    Forall (cstr_ok d) cs ->                       (* pair differences of the right length, not zero *)
    inv_ok d A0 B0 ->                              (* prior: symmetric, positive definite, A0 B0 = I *)
    0 < lo -> 0 < hi ->
    let s := runR g cs n (@init ROps A0 cs lo hi) in
    exists B : Rm,
      wfmR d d (A s) /\ symop d (A s) /\ PDop d (A s) /\
      (forall x, wfvR d x -> mvmulR (A s) (mvmulR B x) = x) /\
      (forall x y, wfvR d x -> wfvR d y ->
         vdotR y (mvmulR B x) = vdotR y (mvmulR B0 x) + Sb cs (duals s) x y) /\
      Forall (fun du : dualR => 0 <= lam du /\ 0 < bhat du) (duals s) /\
      length (duals s) = length cs.

Theorem C11_partial : C11_proved_part.
Proof.
  intros d g cs A0 B0 lo hi n Hg Hcs Hinv Hlo Hhi s.
  destruct (itml_invariant d g cs (fun x y => vdotR y (mvmulR B0 x)) Hg Hcs n _
              (itml_init_ok d A0 B0 cs lo hi Hinv Hlo Hhi)) as [B [[HA HB Hs Hp Hi] [D [L E]]]].
  exists B. refine (conj HA (conj Hs (conj Hp (conj Hi (conj E (conj _ L)))))). exact D.
Qed.
Print Assumptions C11_partial.

(* non-vacuity: the identity prior in dimension 2 satisfies the hypotheses *)
Example C11_nonvacuous : inv_ok 2 [[1; 0]; [0; 1]] [[1; 0]; [0; 1]] /\ cstr_ok 2 (@Build_cstr ROps [1; -2] true).
Proof.
  split.
  - constructor.
    + split; [reflexivity | repeat constructor].
    + split; [reflexivity | repeat constructor].
    + intros [|a [|b [|? ?]]] [|c [|e [|? ?]]] Hx Hy; try discriminate. cbn. lra.
    + intros [|a [|b [|? ?]]] Hx H; try discriminate. unfold qf, vsumsq in *. cbn in *. nra.
    + intros [|a [|b [|? ?]]] Hx; try discriminate. cbn. f_equal; [|f_equal]; lra.
  - split; [reflexivity|]. unfold vsumsq. cbn. lra.
Qed.

(* second clause: a prior that satisfies all bounds is returned unchanged *)
Definition C11_prior_returned_stmt : Prop :=
  forall (d : nat) (A0 : Rm) (g : option R) (cs : list cstrR) (lo hi : R) (n : nat),
    gamma_ok g -> wfmR d d A0 -> 0 < lo -> 0 < hi ->
    Forall (fun c : cstrR => wfvR d (cv c)) cs ->
    Forall (fun c : cstrR =>
              let q := vdotR (cv c) (mvmulR A0 (cv c)) in      (* squared learned distance of the pair under the prior *)
              0 < q /\ (if cpos c then q <= lo else hi <= q)) cs ->
    runR g cs n (@init ROps A0 cs lo hi) = @init ROps A0 cs lo hi.

Theorem C11_prior_returned : C11_prior_returned_stmt.
Proof. exact itml_prior_fixed. Qed.
Print Assumptions C11_prior_returned.

Example C11_prior_returned_nonvacuous :
  let c := @Build_cstr ROps [1; -2] true in
  let q := vdotR (cv c) (mvmulR [[1; 0]; [0; 1]] (cv c)) in 0 < q /\ q <= 6.
Proof. cbn. lra. Qed.

(* the loop as the code runs it returns a state of [run] *)
Definition C11_loop_stmt : Prop :=
  forall (g : option R) (cs : list cstrR) (tol : R) (max_iter : nat) (A0 : Rm) (lo hi : R), (0 < max_iter)%nat ->
    exists n_iter, (n_iter < max_iter)%nat /\
      snd (@fit_loop ROps g cs tol max_iter A0 lo hi) = n_iter /\
      fst (@fit_loop ROps g cs tol max_iter A0 lo hi) = runR g cs (S n_iter) (@init ROps A0 cs lo hi).

Theorem C11_loop : C11_loop_stmt.
Proof.
  intros g cs tol max_iter A0 lo hi H. unfold fit_loop.
  destruct (@run_conv_is_run ROps g cs tol max_iter 0 (@init ROps A0 cs lo hi) (lams (@init ROps A0 cs lo hi)) H)
    as [k [Hk [Hn Hs]]].
  exists k. split; [exact Hk|]. split; [exact Hn | exact Hs].
Qed.
Print Assumptions C11_loop.

(* converged clause: an unchanged dual vector means a fixed point at which every constraint is inactive or tight *)
Definition C11_converged_stmt : Prop :=
  forall (d : nat) (g : option R) (cs : list cstrR) (A0 B0 : Rm) (lo hi : R) (n : nat),
    gamma_ok g -> Forall (cstr_ok d) cs -> inv_ok d A0 B0 -> 0 < lo -> 0 < hi ->
    let s := runR g cs n (@init ROps A0 cs lo hi) in
    lams (sweepR g cs s) = lams s ->
    sweepR g cs s = s /\
    Forall2 (fun (c : cstrR) (du : dualR) =>
               let q := vdotR (cv c) (mvmulR (A s) (cv c)) in
               (lam du = 0 /\ (if cpos c then q <= bhat du else bhat du <= q)) \/ q = bhat du) cs (duals s).

Theorem C11_converged : C11_converged_stmt.
Proof.
  intros d g cs A0 B0 lo hi n Hg Hcs Hinv Hlo Hhi s Hl.
  destruct (C11_partial d g cs A0 B0 lo hi n Hg Hcs Hinv Hlo Hhi) as [B [HA [_ [HP [_ [_ [HD HL]]]]]]].
  fold s in HA, HP, HD, HL.
  exact (itml_converged_kkt d g cs s Hg HA (wtw_pos d (A s) cs HP Hcs) HD HL Hl).
Qed.
Print Assumptions C11_converged.

(* non-vacuity: one similar pair already tight under the identity prior is a fixed point with lambda = 0 *)
Example C11_converged_nonvacuous :
  let cs := [@Build_cstr ROps [1; 0] true] in
  let s := @init ROps [[1; 0]; [0; 1]] cs 1 4 in
  lams (sweepR (Some 1) cs s) = lams s.
Proof. cbn. unfold lams, sweep. cbn. f_equal. rewrite omin_Rmin. unfold inv. cbn. unfold Rmin.
  destruct (Rle_dec 0 _) as [|n0]; [lra|]. exfalso. apply n0. lra. Qed.

(* the translated source: the loop of itml.py (gen/Src_itml.v) returns a state satisfying all of the above *)
Definition C11_source_stmt : Prop :=
  forall (d : nat) (g : option R) (cs : list cstrR) (A0 B0 : Rm) (lo hi tol : R) (max_iter : nat),
    gamma_ok g -> Forall (cstr_ok d) cs -> inv_ok d A0 B0 -> 0 < lo -> 0 < hi -> (0 < max_iter)%nat ->
    let r := @src_fit_loop ROps g cs tol max_iter A0 lo hi in
    let s := fst r in
    exists (n_iter : nat) (B : Rm),
      (n_iter < max_iter)%nat /\ snd r = n_iter /\
      s = runR g cs (S n_iter) (@init ROps A0 cs lo hi) /\
      wfmR d d (A s) /\ symop d (A s) /\ PDop d (A s) /\
      (forall x, wfvR d x -> mvmulR (A s) (mvmulR B x) = x) /\
      (forall x y, wfvR d x -> wfvR d y ->
         vdotR y (mvmulR B x) = vdotR y (mvmulR B0 x) + Sb cs (duals s) x y) /\
      Forall (fun du : dualR => 0 <= lam du /\ 0 < bhat du) (duals s) /\
      length (duals s) = length cs.

Theorem C11_source : C11_source_stmt.
Proof.
  intros d g cs A0 B0 lo hi tol max_iter Hg Hcs Hinv Hlo Hhi Hm r s. subst s r.
  rewrite (src_fit_loop_eq d g cs A0 B0 lo hi tol max_iter Hg Hcs Hinv Hlo Hhi).
  destruct (C11_loop g cs tol max_iter A0 lo hi Hm) as [n_iter [Hn [Hsnd Hfst]]].
  destruct (C11_partial d g cs A0 B0 lo hi (S n_iter) Hg Hcs Hinv Hlo Hhi) as [B HB].
  exists n_iter, B. rewrite Hfst. split; [exact Hn|]. split; [exact Hsnd|]. split; [reflexivity|]. exact HB.
Qed.
Print Assumptions C11_source.

(* the skeleton of _fit around the loop is the one the model assumes *)
Definition C11_source_skeleton := itml_skeleton_ok.

(* text-level tie: the functions this property's hand-written model and harness were written from are unchanged
   (digests regenerated from /repo on every run; Proofs/PinsC11.v) *)
Definition C11_source_pins := pins_C11_ok.
