(* C15 -- SCML learns a non-negative combination of its basis by the documented scheme.
   Model: Model/SCML.v (hand-written from scml.py; the whole loop is re-run on binary64 from the
   recorded basis and mini-batch indices and compared with the weights the implementation hands to
   its components builder: props/c15.py).  Basis generation (eigh, k-means, LDA) is an oracle whose
   documented post-condition (n_basis unit-norm rows) is checked per run.
   C15_source: the statements of one iteration of the loop of scml.py and of its checkpoint objective, as TRANSLATED on
   this run (gen/Src_scml.v), compute the model's step and objective, so the loop of the source over any batch sequence is
   the model's run and the theorems below hold for it; set-up, record update and post-loop statements pinned as text. *)
From Coq Require Import List Reals.
From ML Require Import Ops Vec VecR MatR LinAlg NPNum SCML C15Proof C15Best C15Src.
From ML Require Import PinsC15.
From MLgen Require Import Src_scml.
Import ListNotations.
Open Scope R_scope.

Definition C15_statement : Prop :=
  (* for every basis, triplet set, batch sequence and iteration count: all weights, current and
     best-checkpoint, are non-negative *)
  (forall (p : paramsR) D nb batches iter s, 0 < gamma p -> 0 < delta p ->
     state_ok s -> state_ok (run p D nb iter batches s)) /\
  (forall nb, state_ok (@init ROps nb)) /\
  (* hence M = sum_i w_i b_i b_i^T is PSD *)
  (forall d (w : Rv) (B : Rm), Forall (wfvR d) B -> Forall (fun a => 0 <= a) w -> PSDop d (wgramR d w B)) /\
  (* the low-rank transformation sqrt(w_i) b_i over the active rows factors M, and has as many rows
     as there are active (positive) weights *)
  (forall d (wv : Rv) (B : Rm) x, Forall (wfvR d) B -> wfvR d x -> Forall (fun a => 0 <= a) wv ->
     vsumsqR (mvmulR (@lowrank_components ROps wv B) x) = quadformR (wgramR d wv B) x) /\
  (forall (wv : Rv) (B : Rm), length wv = length B ->
     length (@lowrank_components ROps wv B) = length (filter (fun a => Rltb 0 a) wv)).

Theorem C15_partial : C15_statement.
Proof.
  exact (conj scml_run_nonneg (conj init_ok (conj wgram_psd (conj scml_lowrank_factor scml_lowrank_rows)))).
Qed.
Print Assumptions C15_partial.

(* which iterate is returned: the objective is evaluated at the iterations k = output_iter, 2*output_iter, ...
   <= max_iter (max_iter = number of mini-batches), and the record kept is the FIRST of these iterates that
   attains the smallest objective; with no checkpoint in range nothing is recorded *)
Definition C15_checkpoint_statement : Prop :=
  forall (p : paramsR) (D : Rm) (nb : nat) (batches : list (list nat)),
    let wk := fun k => w (runR p D nb 0 (firstn (k - 0) batches) (@init ROps nb)) in     (* weights after k iterations *)
    let ks := filter (fun k => Nat.eqb (Nat.modulo k (output_iter p)) 0) (seq 1 (length batches)) in
    let candidates := map (fun k => (objectiveR p D (wk k), wk k)) ks in
    match best (runR p D nb 0 batches (@init ROps nb)) with
    | None => ks = []
    | Some r => exists pre post, candidates = pre ++ r :: post /\
                  Forall (fun c => fst r < fst c) pre /\ Forall (fun c => fst r <= fst c) post
    end.

Theorem C15_checkpoint : C15_checkpoint_statement.
Proof. exact scml_best_checkpoint. Qed.
Print Assumptions C15_checkpoint.

(* non-vacuity: with output_iter = 2 and three batches there is exactly one checkpoint, k = 2 *)
Example C15_checkpoint_nonvacuous :
  filter (fun k => Nat.eqb (Nat.modulo k 2) 0) (seq 1 3) = [2%nat].
Proof. reflexivity. Qed.

(* the translated source (gen/Src_scml.v): its loop over any recorded batch sequence is the model's run, hence keeps every
   weight (current and best-checkpoint) non-negative, and its best record is the first minimum over the checkpoints *)
Definition C15_source_stmt : Prop :=
  (forall (p : paramsR) (D : Rm) nb batches iter (s : stateR),
     @src_run ROps p D nb iter batches s = runR p D nb iter batches s) /\
  (forall (p : paramsR) (D : Rm) nb iter idx (s : stateR),
     let s' := @step ROps p D nb iter idx s in
     @scml_step ROps (gamma p) (beta p) (delta p) (batch_size p) nb D iter idx (w s) (avg s) (ada s) = (w s', avg s', ada s')) /\
  (forall (p : paramsR) (D : Rm) (wv : Rv), @scml_objective ROps (beta p) (length D) D wv = objectiveR p D wv) /\
  (forall (p : paramsR) (D : Rm) nb batches, 0 < gamma p -> 0 < delta p ->
     state_ok (@src_run ROps p D nb 0 batches (@init ROps nb))).

Theorem C15_source : C15_source_stmt.
Proof.
  split; [exact src_run_eq|]. split; [exact scml_step_eq|]. split; [exact scml_objective_eq|].
  intros p D nb batches Hg Hd. rewrite src_run_eq. apply scml_run_nonneg; auto. apply init_ok.
Qed.
Print Assumptions C15_source.
Definition C15_source_skeleton := scml_skeleton_ok.

(* text-level tie: the functions this property's hand-written model and harness were written from are unchanged
   (digests regenerated from /repo on every run; Proofs/PinsC15.v) *)
Definition C15_source_pins := pins_C15_ok.

(* _components_from_basis_weights as TRANSLATED on this run (gen/Src_scml.v: the selection w > 0 of the active bases, the low-rank
   return expression np.sqrt(w.T) * basis, the matrix np.matmul(basis.T, w.T * basis) handed to components_from_metric otherwise):
   the low-rank factor is the model's (so, by C15_partial, it factors M = sum_i w_i b_i b_i^T and has one row per active weight), and
   in the full-rank case the matrix handed over has the quadratic form of that same sum, for every basis and non-negative weights *)
Definition C15_builder_source_stmt : Prop :=
  (forall (w : Rv) (B : Rm), length w = length B -> @scml_lowrank_components ROps B w = @lowrank_components ROps w B) /\
  (forall d (w : Rv) (B : Rm) (x : Rv), Forall (wfvR d) B -> wfvR d x -> length w = length B -> Forall (fun a => 0 <= a) w ->
     vsumsqR (mvmulR (@scml_lowrank_components ROps B w) x) = quadformR (wgramR d w B) x /\
     quadformR (@scml_fullrank_metric ROps B w) x = quadformR (wgramR d w B) x).

Theorem C15_builder_source : C15_builder_source_stmt.
Proof.
  split; [exact src_lowrank_eq|]. intros d w B x HB Hx HL Hw. split.
  - rewrite (src_lowrank_eq w B HL). apply scml_lowrank_factor; assumption.
  - rewrite (src_fullrank_form d w B x HB Hx HL Hw). symmetry. apply quadform_wgram; assumption.
Qed.
Print Assumptions C15_builder_source.
