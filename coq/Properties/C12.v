(* C12 -- LSML descends its convex objective from the prior to a stationary point.
   Model: Model/LSML.v (hand-written from lsml.py; loss and gradient formulas are compared with the
   code's own _total_loss / _gradient on binary64, log det and the inverse being oracle inputs:
   props/c12.py).  The step search is modelled over ANY candidate oracle.
   C12_source: _comparison_loss, _total_loss and _gradient as TRANSLATED from lsml.py on this run (gen/Src_lsml.v)
   are the model's loss / total loss, each pass of the gradient loop adds the model's term of that constraint, and
   with all constraints satisfied the translated gradient is P - M^-1; the descent loop of _fit is pinned as text.
   NOT mechanised: stationary point => global minimiser (convexity); stationarity itself and
   loss(result) <= loss(prior) are re-checked per fit. *)
From Coq Require Import List Reals.
From ML Require Import Ops Vec NP VecR MatR LinAlg NPNum LSML C12Proof C20Proof C12Src.
From ML Require Import PinsC12.
From MLgen Require Import Src_lsml.
Import ListNotations.
Open Scope R_scope.

Definition C12_statement : Prop :=
  (* for any sequence of candidate steps the accepted loss never increases *)
  (forall (iters : list (list (R * Rm))) s M, fst (descendR s M iters) <= s) /\
  (* constraint weights scale each constraint's influence in the objective AND in the search direction *)
  (forall (M : Rm) (q : quadR) (c : R),
     let q' := {| qab := qab q; qcd := qcd q; qw := c * qw q |} in
     @qw ROps q' * @hinge ROps M q' = c * (qw q * @hinge ROps M q)) /\
  (forall d (M : Rm) (q : quadR) (c : R) x, wfvR d (qab q) -> wfvR d (qcd q) -> wfvR d x ->
     let q' := {| qab := qab q; qcd := qcd q; qw := c * qw q |} in
     quadformR (@grad_term ROps M q') x = c * quadformR (@grad_term ROps M q) x) /\
  (* if all quadruplet constraints hold under M the comparison loss is 0 and the gradient is P - M^-1
     (zero at the prior, which is therefore returned) *)
  (forall (M : Rm) (qs : list quadR), Forall (fun q => @violated ROps M q = false) qs ->
     @comparison_loss ROps M qs = 0) /\
  (forall d (M P Minv : Rm) (qs : list quadR), Forall (fun q => @violated ROps M q = false) qs ->
     @gradient ROps d M P Minv qs = map2 vsubR P Minv) /\
  (* the eigenvalue floor keeps every iterate positive definite (for eigenvectors that span the space) *)
  (forall d (l : Rv) (V : Rm) (floor : R) x, 0 < floor -> Forall (wfvR d) V -> wfvR d x -> length l = length V ->
     0 < wsq (map (fun _ => 1) V) V x -> 0 < quadformR (wgramR d (map (Rmax floor) l) V) x).

Theorem C12_partial : C12_statement.
Proof.
  exact (conj lsml_accept_descends (conj lsml_loss_weight (conj lsml_grad_weight
        (conj lsml_satisfied_loss (conj lsml_satisfied_grad floor_form_pd))))).
Qed.
Print Assumptions C12_partial.

(* the translated source (gen/Src_lsml.v) computes the model *)
Definition C12_source_stmt : Prop :=
  (forall d (w : Rv) (M vab vcd : Rm),
     wfmR d d M -> Forall (wfvR d) vab -> Forall (wfvR d) vcd -> length w = length vab -> length vab = length vcd ->
     @lsml_comparison_loss ROps w M vab vcd = @comparison_loss ROps M (zipq w vab vcd)) /\
  (forall d (w : Rv) (logdet : R) (M vab vcd P : Rm),
     wfmR d d M -> Forall (wfvR d) vab -> Forall (wfvR d) vcd -> length w = length vab -> length vab = length vcd ->
     @lsml_total_loss ROps w 1 logdet M vab vcd P = @total_loss ROps M P logdet (zipq w vab vcd)) /\
  (forall d (G M : Rm) (q : quadR) (x : Rv),
     wfmR d d G -> wfvR d (qab q) -> wfvR d (qcd q) -> wfvR d x ->
     mvmulR (@lsml_grad_step ROps G (qw q) (qab q) (@dM ROps M (qab q)) (qcd q) (@dM ROps M (qcd q))) x =
       vaddR (mvmulR G x) (mvmulR (@grad_term ROps M q) x) /\
     wfmR d d (@lsml_grad_step ROps G (qw q) (qab q) (@dM ROps M (qab q)) (qcd q) (@dM ROps M (qcd q)))) /\
  (forall d (w : Rv) (Minv M vab vcd P : Rm),
     wfmR d d M -> Forall (wfvR d) vab -> Forall (wfvR d) vcd -> length w = length vab -> length vab = length vcd ->
     Forall (fun q => @violated ROps M q = false) (zipq w vab vcd) ->
     @lsml_gradient ROps w Minv M vab vcd P = map2 vsubR P Minv).

Theorem C12_source : C12_source_stmt.
Proof.
  exact (conj src_comparison_loss_eq (conj src_total_loss_eq (conj src_grad_step_action src_gradient_satisfied))).
Qed.
Print Assumptions C12_source.
Definition C12_source_skeleton := lsml_skeleton_ok.

(* the whole translated _gradient (prior_inv - M^-1, then one pass of the translated loop body per violated constraint) acts on every
   vector as the model's gradient P - M^-1 + sum over the violated constraints of their weighted terms, for every metric, prior
   inverse, weights and quadruplets - not only when no constraint is violated *)
Definition C12_gradient_source_stmt : Prop :=
  forall d (w : Rv) (Minv M vab vcd P : Rm) (x : Rv),
    wfmR d d M -> wfmR d d P -> wfmR d d Minv -> Forall (wfvR d) vab -> Forall (wfvR d) vcd ->
    length w = length vab -> length vab = length vcd -> wfvR d x ->
    mvmulR (@lsml_gradient ROps w Minv M vab vcd P) x = mvmulR (@gradient ROps d M P Minv (zipq w vab vcd)) x.

Theorem C12_gradient_source : C12_gradient_source_stmt.
Proof. exact src_gradient_action. Qed.
Print Assumptions C12_gradient_source.

(* the descent loop of _fit as TRANSLATED on this run (what is kept from one candidate step to the next: `if cur_s < s_best`, and
   from one iteration to the next: `if M_best is None: break`, `M = M_best`), with the candidates (step, eigen-decomposition,
   floor, loss) as oracle values: it is the model's loop, so for ANY candidates the loss it ends with is never above the one it
   started from - the first clause of C12_partial, for the code as it reads now *)
Definition C12_descent_source_stmt : Prop :=
  (forall (iters : list (list (R * Rm))) s M, @lsml_descent ROps s M iters = descendR s M iters) /\
  (forall (iters : list (list (R * Rm))) s M, fst (@lsml_descent ROps s M iters) <= s).

Theorem C12_descent_source : C12_descent_source_stmt.
Proof.
  split; intros iters s M.
  - apply src_descent_is_descend.
  - rewrite src_descent_is_descend. apply lsml_accept_descends.
Qed.
Print Assumptions C12_descent_source.

(* text-level tie: the functions this property's hand-written model and harness were written from are unchanged
   (digests regenerated from /repo on every run; Proofs/PinsC12.v) *)
Definition C12_source_pins := pins_C12_ok.
