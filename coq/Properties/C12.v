(* C12 -- LSML descends its convex objective from the prior to a stationary point.
   Model: Model/LSML.v (hand-written from lsml.py; loss and gradient formulas are compared with the
   code's own _total_loss / _gradient on binary64, log det and the inverse being oracle inputs:
   props/c12.py).  The step search is modelled over ANY candidate oracle.
   NOT mechanised: stationary point => global minimiser (convexity); stationarity itself and
   loss(result) <= loss(prior) are re-checked per fit. *)
From Coq Require Import List Reals.
From ML Require Import Ops Vec NP VecR MatR LinAlg LSML C12Proof C20Proof.
Import ListNotations.
Open Scope R_scope.

Definition C12_statement : Prop :=
  (* for any sequence of candidate steps the accepted loss never increases *)
  (forall (iters : list (list (R * Rm))) s M, fst (descendR s M iters) <= s) /\
  (* constraint weights scale each constraint's influence in the objective AND in the search direction *)
  (forall (M : Rm) (q : quadR) (c : R),
     let q' := {| qab := qab q; qcd := qcd q; qw := c * qw q |} in
     @qw ROps q' * @hinge ROps M q' = c * (qw q * @hinge ROps M q)) /\
  (forall d (M : Rm) (q : quadR) (c : R) x, wfvR d (qab q) -> wfvR d (qcd q) -> wfvR d x ->
     let q' := {| qab := qab q; qcd := qcd q; qw := c * qw q |} in
     quadformR (@grad_term ROps M q') x = c * quadformR (@grad_term ROps M q) x) /\
  (* if all quadruplet constraints hold under M the comparison loss is 0 and the gradient is P - M^-1
     (zero at the prior, which is therefore returned) *)
  (forall (M : Rm) (qs : list quadR), Forall (fun q => @violated ROps M q = false) qs ->
     @comparison_loss ROps M qs = 0) /\
  (forall d (M P Minv : Rm) (qs : list quadR), Forall (fun q => @violated ROps M q = false) qs ->
     @gradient ROps d M P Minv qs = map2 vsubR P Minv) /\
  (* the eigenvalue floor keeps every iterate positive definite (for eigenvectors that span the space) *)
  (forall d (l : Rv) (V : Rm) (floor : R) x, 0 < floor -> Forall (wfvR d) V -> wfvR d x -> length l = length V ->
     0 < wsq (map (fun _ => 1) V) V x -> 0 < quadformR (wgramR d (map (Rmax floor) l) V) x).

Theorem C12_partial : C12_statement.
Proof.
  exact (conj lsml_accept_descends (conj lsml_loss_weight (conj lsml_grad_weight
        (conj lsml_satisfied_loss (conj lsml_satisfied_grad floor_form_pd))))).
Qed.
Print Assumptions C12_partial.
