(* Model of _BaseSDML._fit (sdml.py): the matrix handed to the graphical lasso, the vetting of
   its result, and the optimality (KKT) conditions of the documented objective
     tr(S M) - logdet M + alpha * ||M||_{1,off}.
   The graphical-lasso solver itself is an oracle: its output is certified per run. *)
From Coq Require Import List Arith Bool ZArith.
From ML Require Import Ops Vec NP LinAlg.
Import ListNotations.

Section S.
  Context {O : Ops}.
  Notation t := (T O).
  Notation vec := (list t).
  Notation mat := (list (list t)).

  (* loss matrix sum_i y_i v_i v_i^T  (the code: (diff.T * y).dot(diff)) *)
  Definition loss_matrix (d : nat) (ys : vec) (diffs : mat) : mat := wgram d ys diffs.
  (* S = M0^-1 + balance_param * loss *)
  Definition emp_cov (d : nat) (prior_inv : mat) (balance : t) (ys : vec) (diffs : mat) : mat :=
    madd prior_inv (mscale balance (loss_matrix d ys diffs)).

  (* entrywise optimality of M for tr(S M) - logdet M + alpha |M|_{1,off}, Minv = M^-1:
     residual r = S_ij - Minv_ij;  i = j: r = 0;  M_ij <> 0: r + alpha sign(M_ij) = 0;  M_ij = 0: |r| <= alpha *)
  Definition sgn (a : t) : t := if oltb O (o0 O) a then o1 O else if oltb O a (o0 O) then oopp O (o1 O) else o0 O.
  Definition kkt_entry (alpha tol : t) (diag : bool) (s minv m : t) : bool :=
    let r := osub O s minv in
    if diag then oleb O (oabs O r) tol
    else if is_zero m then oleb O (oabs O r) (oadd O alpha tol)
    else oleb O (oabs O (oadd O r (omul O alpha (sgn m)))) tol.
  Definition glasso_kkt (alpha tol : t) (S Minv M : mat) : bool :=
    forallb (fun ir => match ir with (i, ((rs, ri), rm)) =>
      forallb (fun jc => match jc with (j, ((s, mi), m)) => kkt_entry alpha tol (Nat.eqb i j) s mi m end)
              (combine (seq 0 (length rs)) (combine (combine rs ri) rm)) end)
      (combine (seq 0 (length S)) (combine (combine S Minv) M)).
End S.

(* result vetting: any of (solver raised, a negative eigenvalue, a non-finite entry) -> RuntimeError *)
Inductive sdml_outcome := SdmlReturns | SdmlRuntimeError.
Definition vet (raised not_spd not_finite : bool) : sdml_outcome :=
  if raised || not_spd || not_finite then SdmlRuntimeError else SdmlReturns.
