(* Executable model of _BaseITML._fit: cyclic Bregman projections (rank-one updates).
   Constraints are the pair differences v_i with their label; positives come first, exactly as the
   code indexes its dual variables.  The convergence test only decides how many sweeps are run, so
   the number of sweeps is a parameter and every theorem holds for every iteration budget. *)
From Coq Require Import List Arith Bool ZArith.
From ML Require Import Ops Vec NP LinAlg.
Import ListNotations.

Section I.
  Context {O : Ops}.
  Notation t := (T O).
  Notation vec := (list t).
  Notation mat := (list (list t)).

  Record cstr := { cv : vec; cpos : bool }.
  (* per-constraint dual variable and slack-adjusted bound *)
  Record dual := { lam : t; bhat : t }.
  Record st := { A : mat; duals : list dual }.

  (* gamma = None means gamma = inf: gamma_proj = 1 and alpha / gamma = 0 *)
  Definition gamma_proj (g : option t) : t :=
    match g with None => o1 O | Some gm => odiv O gm (oadd O gm (o1 O)) end.
  Definition over_gamma (g : option t) (alpha : t) : t :=
    match g with None => o0 O | Some gm => odiv O alpha gm end.

  Definition inv (a : t) : t := odiv O (o1 O) a.

  Definition update (g : option t) (c : cstr) (Am : mat) (du : dual) : mat * dual :=
    let v := cv c in
    let Av := mvmul Am v in
    let wtw := vdot v Av in
    let gp := gamma_proj g in
    if cpos c then
      let alpha := omin O (lam du) (omul O gp (osub O (inv wtw) (inv (bhat du)))) in
      let beta := odiv O alpha (osub O (o1 O) (omul O alpha wtw)) in
      (madd Am (outer Av (vscale beta Av)),
       {| lam := osub O (lam du) alpha; bhat := inv (oadd O (inv (bhat du)) (over_gamma g alpha)) |})
    else
      let alpha := omin O (lam du) (omul O gp (osub O (inv (bhat du)) (inv wtw))) in
      let beta := odiv O (oopp O alpha) (oadd O (o1 O) (omul O alpha wtw)) in
      (madd Am (outer Av (vscale beta Av)),
       {| lam := osub O (lam du) alpha; bhat := inv (osub O (inv (bhat du)) (over_gamma g alpha)) |}).

  Fixpoint sweep_aux (g : option t) (cs : list cstr) (Am : mat) (ds : list dual) : mat * list dual :=
    match cs, ds with
    | c :: cs', du :: ds' =>
        let '(A1, du1) := update g c Am du in
        let '(A2, ds2) := sweep_aux g cs' A1 ds' in
        (A2, du1 :: ds2)
    | _, _ => (Am, [])
    end.
  Definition sweep (g : option t) (cs : list cstr) (s : st) : st :=
    let '(A1, ds1) := sweep_aux g cs (A s) (duals s) in {| A := A1; duals := ds1 |}.
  Fixpoint run (g : option t) (cs : list cstr) (n : nat) (s : st) : st :=
    match n with 0%nat => s | S n' => run g cs n' (sweep g cs s) end.

  Definition init (A0 : mat) (cs : list cstr) (lo hi : t) : st :=
    {| A := A0; duals := map (fun c => {| lam := o0 O; bhat := if cpos c then lo else hi |}) cs |}.

  (* the convergence measure of the code, between two consecutive sweeps *)
  Definition l1diff (a b : vec) : t := vsum (map2 (fun x y => oabs O (osub O x y)) a b).
  Definition l2norm (a : vec) : t := osqrt O (vsumsq a).

  (* The loop as the code runs it:  for it in range(max_iter): sweep; normsum = |lambda| + |lambda_old|;
     if normsum == 0: break; conv = |lambda_old - lambda|_1 / normsum; if conv < tol: break; lambda_old = lambda.
     Returns the final state and n_iter_ (the index of the last sweep run).  [budget] = sweeps still allowed,
     [it] = index of the next sweep. *)
  Definition lams (s : st) : vec := map lam (duals s).
  Definition stops (tol : t) (lamold lamnew : vec) : bool :=
    let normsum := oadd O (l2norm lamnew) (l2norm lamold) in
    if oeqb O normsum (o0 O) then true
    else oltb O (odiv O (l1diff lamold lamnew) normsum) tol.
  Fixpoint run_conv (g : option t) (cs : list cstr) (tol : t) (budget it : nat) (s : st) (lamold : vec) : st * nat :=
    match budget with
    | 0%nat => (s, pred it)
    | S b =>
        let s1 := sweep g cs s in
        if stops tol lamold (lams s1) then (s1, it)
        else run_conv g cs tol b (S it) s1 (lams s1)
    end.
  Definition fit_loop (g : option t) (cs : list cstr) (tol : t) (max_iter : nat) (A0 : mat) (lo hi : t) : st * nat :=
    let s0 := init A0 cs lo hi in run_conv g cs tol max_iter 0 s0 (lams s0).
End I.
