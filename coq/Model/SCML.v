(* Executable model of _BaseSCML._fit (stochastic dual averaging with AdaGrad-style scaling)
   and _components_from_basis_weights.  The mini-batch indices are an input (the recorded
   output of the random generator), so the theorems hold for every batch sequence. *)
From Coq Require Import List Arith Bool ZArith.
From ML Require Import Ops Vec NP LinAlg.
Import ListNotations.

Section S.
  Context {O : Ops}.
  Notation t := (T O).
  Notation vec := (list t).
  Notation mat := (list (list t)).

  Record params := { gamma : t; beta : t; delta : t; batch_size : nat; output_iter : nat }.
  Record state := { w : vec; avg : vec; ada : vec; best : option (t * vec) }.

  Definition ofn (n : nat) : t := oofZ O (Z.of_nat n).
  Definition vsum_rows (d : nat) (rows : mat) : vec := fold_right vadd (vzero d) rows.

  (* regularised hinge objective at a checkpoint *)
  Definition objective (p : params) (D : mat) (wv : vec) : t :=
    let obj1 := omul O (vsum wv) (beta p) in
    let slack := map (fun r => oadd O (o1 O) (vdot r wv)) D in
    let pos := filter (fun s => oltb O (o0 O) s) slack in
    oadd O obj1 (odiv O (vsum pos) (ofn (length D))).

  Definition step (p : params) (D : mat) (nb : nat) (iter : nat) (idx : list nat) (s : state) : state :=
    let rows := map (fun i => nth i D []) idx in
    let active := filter (fun r => oltb O (o0 O) (oadd O (o1 O) (vdot r (w s)))) rows in
    let grad := map (fun a => odiv O a (ofn (batch_size p))) (vsum_rows nb active) in
    let avg' := map2 (fun a g => odiv O (oadd O (omul O (ofn iter) a) g) (ofn (S iter))) (avg s) grad in
    let ada' := map2 (fun a g => osqrt O (oadd O (omul O a a) (omul O g g))) (ada s) grad in
    let w' := map2 (fun a ad =>
                 omul O (oopp O (odiv O (ofn (S iter)) (omul O (gamma p) (oadd O (delta p) ad))))
                        (omin O (oadd O a (beta p)) (o0 O))) avg' ada' in
    let best' :=
      if Nat.eqb (Nat.modulo (S iter) (output_iter p)) 0 then
        let obj := objective p D w' in
        match best s with
        | None => Some (obj, w')
        | Some (bo, bw) => if oltb O obj bo then Some (obj, w') else Some (bo, bw)
        end
      else best s in
    {| w := w'; avg := avg'; ada := ada'; best := best' |}.

  Fixpoint run (p : params) (D : mat) (nb : nat) (iter : nat) (batches : list (list nat)) (s : state) : state :=
    match batches with
    | [] => s
    | idx :: more => run p D nb (S iter) more (step p D nb iter idx s)
    end.
  Definition init (nb : nat) : state := {| w := vzero nb; avg := vzero nb; ada := vzero nb; best := None |}.

  (* dist_diff: for a triplet (a, b, c) and basis row u: (u.(xa - xb))^2 - (u.(xa - xc))^2 *)
  Definition dist_diff (B : mat) (trip : list (vec * vec * vec)) : mat :=
    map (fun abc => match abc with (a, b, c) =>
       map (fun u => osub O (let e := osub O (vdot a u) (vdot b u) in omul O e e)
                            (let e := osub O (vdot a u) (vdot c u) in omul O e e)) B end) trip.

  (* _components_from_basis_weights: active rows, low-rank branch *)
  Definition active_pairs (wv : vec) (B : mat) : list (t * vec) :=
    filter (fun wb => oltb O (o0 O) (fst wb)) (combine wv B).
  Definition lowrank_components (wv : vec) (B : mat) : mat :=
    map (fun wb => vscale (osqrt O (fst wb)) (snd wb)) (active_pairs wv B).
End S.

(* conditioning of a run: the smallest |slack| met by any hinge test (mini-batch or checkpoint);
   a run whose margin is tiny may legitimately differ between two correctly rounded evaluations *)
Section Margin.
  Context {O : Ops}.
  Notation t := (T O).
  Definition vminabs (big : t) (v : list t) : t := fold_right (fun a m => omin O (oabs O a) m) big v.
  Fixpoint run_margin (p : @params O) (D : list (list t)) (nb iter : nat) (batches : list (list nat))
      (s : @state O) (m : t) : t :=
    match batches with
    | [] => m
    | idx :: more =>
        let rows := map (fun i => nth i D []) idx in
        let m1 := vminabs m (map (fun r => oadd O (o1 O) (vdot r (w s))) rows) in
        let s' := step p D nb iter idx s in
        let m2 := if Nat.eqb (Nat.modulo (S iter) (output_iter p)) 0
                  then vminabs m1 (map (fun r => oadd O (o1 O) (vdot r (w s'))) D) else m1 in
        run_margin p D nb (S iter) more s' m2
    end.
End Margin.
