(* Mann-Whitney form of ROC-AUC on exact numbers: the specification that
   sklearn.metrics.roc_auc_score is validated against (it is an oracle in the theorems). *)
From Coq Require Import List ZArith QArith Qreduction Bool.
From ML Require Import Ops Vec NP QIO.
Import ListNotations.

(* dists: (squared) distances, score = -distance; y in {+1,-1} *)
Definition auc_mw (dists : list Q) (y : list Z) : Q :=
  let lab := combine dists y in
  let pos := map fst (filter (fun p => Z.eqb (snd p) 1) lab) in
  let neg := map fst (filter (fun p => negb (Z.eqb (snd p) 1)) lab) in
  let pairs := list_prod pos neg in
  let two_s := fold_right (fun pn acc =>
      (acc + (if qltb (fst pn) (snd pn) then 2 else if qeqb (fst pn) (snd pn) then 1 else 0))%Z) 0%Z pairs in
  Qred (two_s # (2 * Pos.of_nat (length pairs))).
