(* Model of the PSD helpers of _util.py: _check_sdp_from_eigen, the three branches of
   components_from_metric, _auto_select_init, _check_n_components (see Validate.v). *)
From Coq Require Import List Arith Bool ZArith.
From ML Require Import Ops Vec NP LinAlg.
Import ListNotations.

Inductive sdp_result := SdpDefinite | SdpNotDefinite | SdpNonPSD | SdpValueError.
Inductive init_kind := InitLda | InitPca | InitIdentity.

Section P.
  Context {O : Ops}.
  Notation t := (T O).
  Notation vec := (list t).
  Notation mat := (list (list t)).

  Definition vmaxabs (w : vec) : t := fold_right (fun a m => omax O (oabs O a) m) (o0 O) w.
  (* tol = abs(w).max() * len(w) * eps *)
  Definition default_tol (eps : t) (w : vec) : t :=
    omul O (omul O (vmaxabs w) (oofZ O (Z.of_nat (length w)))) eps.

  Definition check_sdp (w : vec) (tol : t) : sdp_result :=
    if oltb O tol (o0 O) then SdpValueError
    else if existsb (fun a => oltb O a (oopp O tol)) w then SdpNonPSD
    else if existsb (fun a => oleb O (oabs O a) tol) w then SdpNotDefinite
    else SdpDefinite.

  (* diagonal branch: np.diag(np.sqrt(np.maximum(0, np.diag(metric)))) *)
  Definition cfm_diag (m : vec) : vec := map (fun a => osqrt O (omax O (o0 O) a)) m.
  (* eigen branch: V.T * sqrt(max(0, w))[:, None]  -- row k is sqrt(max(0,w_k)) * v_k,
     V given by its columns (= eigenvectors) *)
  Definition cfm_eigen (w : vec) (Vcols : mat) : mat :=
    map2 (fun wk vk => vscale (osqrt O (omax O (o0 O) wk)) vk) w Vcols.
  (* cholesky branch: L = C^T where C C^T = M *)
  Definition cfm_chol (C : mat) : mat := transp C.

  (* _pseudo_inverse_from_eig: V diag(1/w where |w| > tol else 0) V^T *)
  Definition pinv_weights (tol : t) (w : vec) : vec :=
    map (fun a => if oltb O tol (oabs O a) then odiv O (o1 O) a else o0 O) w.
End P.

(* _auto_select_init *)
Definition auto_select_init (has_classes : bool) (n_features n_samples n_components : nat) (n_classes : Z) : init_kind :=
  if has_classes && (Z.of_nat n_components <=? Z.min (Z.of_nat n_features) (n_classes - 1))%Z then InitLda
  else if n_components <? Nat.min n_features n_samples then InitPca
  else InitIdentity.
