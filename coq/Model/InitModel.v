(* Constructors as data (generated table: gen/Src_init.v) and their meaning. *)
From Coq Require Import List String Bool.
Import ListNotations.
Open Scope string_scope.

Inductive expr :=
| Param (p : string)            (* the very object passed for parameter p *)
| Const (c : string)            (* a constant / an unforwarded default *)
| Alias (old : string) (e : expr)   (* old if it is not the 'deprecated' sentinel, else e *)
| Sentinel (old : string).         (* `old if old == 'deprecated' else 'deprecated'`: the sentinel, as the object given *)

Record class_init := {
  cname : string;
  cparams : list string;        (* constructor signature (= what get_params enumerates) *)
  cdeprecated : list string;    (* parameters whose default is the sentinel 'deprecated' *)
  cstores : list (string * expr);  (* attribute -> stored value, after all assignments *)
  cguards : list string;        (* constructor-time validation (raises ValueError) *)
  cwarns : list string
}.

Fixpoint lookup (k : string) (l : list (string * expr)) : option expr :=
  match l with
  | [] => None
  | (k', v) :: l' => if String.eqb k k' then Some v else lookup k l'
  end.

Definition mem (s : string) (l : list string) : bool := existsb (String.eqb s) l.

Section Sem.
  Variable V : Type.                 (* arbitrary Python objects *)
  Variable is_sentinel : V -> bool.  (* v == 'deprecated' *)
  Variable constv : string -> V.

  Fixpoint eval (env : string -> V) (e : expr) : V :=
    match e with
    | Param p => env p
    | Const c => constv c
    | Alias old e' => if is_sentinel (env old) then eval env e' else env old
    | Sentinel old => if is_sentinel (env old) then env old else constv "'deprecated'"
    end.

  (* scikit-learn's BaseEstimator.get_params: getattr(self, name) for each signature name *)
  Definition get_param (c : class_init) (env : string -> V) (name : string) : option V :=
    option_map (eval env) (lookup name (cstores c)).

  (* BaseEstimator.set_params(name=v): setattr; as a store table: override *)
  Definition set_param (c : class_init) (name : string) : class_init :=
    {| cname := cname c; cparams := cparams c; cdeprecated := cdeprecated c;
       cstores := (name, Param name) :: cstores c; cguards := cguards c; cwarns := cwarns c |}.
End Sem.

(* syntactic criterion: the stored expression is the parameter itself, possibly behind
   aliases of deprecated parameters *)
Fixpoint stores_param (dep : list string) (p : string) (e : expr) : bool :=
  match e with
  | Param q => String.eqb p q
  | Const _ => false
  | Alias old e' => mem old dep && stores_param dep p e'
  | Sentinel _ => false
  end.

Definition nondeprecated (c : class_init) : list string :=
  filter (fun p => negb (mem p (cdeprecated c))) (cparams c).

Definition class_ok (c : class_init) : bool :=
  forallb (fun p => match lookup p (cstores c) with
                    | Some e => stores_param (cdeprecated c) p e
                    | None => false end) (nondeprecated c)
  && forallb (fun p => match lookup p (cstores c) with
                       | Some (Const _) => true      (* keeps get_params working *)
                       | Some (Sentinel q) => String.eqb p q
                       | _ => false end) (cdeprecated c).

(* a deprecated parameter left at its default is stored as the very object passed (scikit-learn's clone compares
   constructor parameters by identity, which matters after unpickling) *)
Definition sentinel_kept (c : class_init) : bool :=
  forallb (fun p => match lookup p (cstores c) with
                    | Some (Sentinel q) => String.eqb p q
                    | _ => false end) (cdeprecated c).

(* documented deprecated aliases: old parameter -> its replacement *)
Definition alias_ok (c : class_init) (old new : string) : bool :=
  mem old (cdeprecated c) &&
  match lookup new (cstores c) with
  | Some (Alias o (Param n)) => String.eqb o old && String.eqb n new
  | _ => false
  end && mem ("FutureWarning:" ++ old) (cwarns c).
