(* option values of _validate_calibration_params, classified the way the Python tests see them: None, an int / float instance
   (a rational, NaN, or an infinity), anything else (str, list, complex, ...); the helpers the translated guard chain is written with *)
From Coq Require Import List Bool ZArith QArith.
From ML Require Import Calibrate.
Import ListNotations.

Inductive pyarg := ANone | ANum (q : Q) | ANan | AInf (positive : bool) | AOther.
Definition arg_is_none (a : pyarg) : bool := match a with ANone => true | _ => false end.
Definition arg_is_number (a : pyarg) : bool := match a with ANum _ | ANan | AInf _ => true | _ => false end.
(* a >= c and a <= c as Python evaluates them on numbers (False for NaN); only reached for numbers *)
Definition arg_ge (a : pyarg) (c : Z) : bool :=
  match a with ANum q => Qle_bool (inject_Z c) q | AInf p => p | _ => false end.
Definition arg_le (a : pyarg) (c : Z) : bool :=
  match a with ANum q => Qle_bool q (inject_Z c) | AInf p => negb p | _ => false end.
Definition strategy_eqb (a b : strategy) : bool :=
  match a, b with SAccuracy, SAccuracy | SFbeta, SFbeta | SMaxTpr, SMaxTpr | SMaxTnr, SMaxTnr | SOther, SOther => true | _, _ => false end.
Definition strategy_mem (a : strategy) (l : list strategy) : bool := existsb (strategy_eqb a) l.
