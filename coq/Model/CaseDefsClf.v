(* Boolean checkers that run the generated tuple-classifier API (decision_function / predict / score of the three
   mixins in gen/Src_query.v).  Apart from CaseDefsQuery.v so that C04's cases do not depend on the translation of
   get_metric, nor C01/C02's on the translation of the classifier mixins. *)
From Coq Require Import List ZArith QArith Qreduction Bool.
From Coq Require PrimFloat.
From ML Require Import Ops Vec NP QIO FloatIO CaseDefs Classify.
From MLgen Require Import Src_query.
Import ListNotations.

(* ---------------- C04 ---------------------------------------------------------------------- *)

Definition c04_pairs_exact (L : list (list fl)) (thr : fl) (P : list (list (list fl)))
    (dec : list fl) (pred : list Z) : bool :=
  fveq (@Src_query.pairs_decision_function FOps L P) dec &&
  zveq (@Src_query.pairs_predict FOps L thr P) pred.

Definition c04_trip_exact (L : list (list fl)) (T : list (list (list fl)))
    (dec : list fl) (pred : list Z) (score : fl) : bool :=
  fveq (@Src_query.triplets_decision_function FOps L T) dec &&
  zveq (@Src_query.triplets_predict FOps L T) pred &&
  feq (@Src_query.triplets_score FOps L T) score.

Definition c04_quad_exact (L : list (list fl)) (Qs : list (list (list fl)))
    (dec : list fl) (pred : list Z) (score : fl) : bool :=
  fveq (@Src_query.quadruplets_decision_function FOps L Qs) dec &&
  zveq (@Src_query.quadruplets_predict FOps L Qs) pred &&
  feq (@Src_query.quadruplets_score FOps L Qs) score.

(* ROC-AUC of the implementation against the Mann-Whitney count on exact squared distances *)
Definition c04_auc (L : list (list Q)) (P : list (list (list Q))) (y : list Z) (auc_impl : Q) : bool :=
  qwithin (auc_mw (@Src_query.pair_distance QOps L P) y) auc_impl tol_1e12.
