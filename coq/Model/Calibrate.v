(* Executable model of _PairsClassifierMixin.calibrate_threshold (base_metric.py).
   A validation set is a list of (distance, is_positive).  predict(+1) <-> distance <= threshold.
   Candidate cut-offs, in the order in which the code's argmax meets them:
     RejectAll (accuracy: min distance - 1; ROC strategies: -inf), then the distinct distances
     in increasing order. *)
From Coq Require Import List Arith Bool ZArith.
From ML Require Import Ops.
Import ListNotations.

Section Cal.
  Context {O : Ops}.
  Notation t := (T O).
  Definition sample := (t * bool)%type.

  Inductive cut := RejectAll | At (d : t).

  Definition accepts (thr : t) (s : sample) : bool := oleb O (fst s) thr.
  Definition accepts_c (c : cut) (s : sample) : bool :=
    match c with RejectAll => false | At d => accepts d s end.

  Definition count {A} (f : A -> bool) (l : list A) : nat := length (filter f l).

  Definition npos (data : list sample) : nat := count (fun s => snd s) data.
  Definition nneg (data : list sample) : nat := count (fun s => negb (snd s)) data.
  (* confusion counts of a predicate on samples *)
  Definition tp_of (acc : sample -> bool) data : nat := count (fun s => acc s && snd s) data.
  Definition fp_of (acc : sample -> bool) data : nat := count (fun s => acc s && negb (snd s)) data.
  Definition tn_of (acc : sample -> bool) data : nat := count (fun s => negb (acc s) && negb (snd s)) data.
  Definition correct_of (acc : sample -> bool) data : nat := tp_of acc data + tn_of acc data.

  Definition ofnat (n : nat) : t := oofZ O (Z.of_nat n).

  (* F-beta from the confusion counts: 0 when there is no true positive (the code maps NaN to 0) *)
  Definition fbeta_of (beta : t) (acc : sample -> bool) data : t :=
    let tp := tp_of acc data in
    if Nat.eqb tp 0 then o0 O else
    let b2 := omul O beta beta in
    odiv O (omul O (oadd O (o1 O) b2) (ofnat tp))
           (oadd O (omul O b2 (ofnat (npos data))) (ofnat (tp + fp_of acc data))).

  (* tnr >= r  <->  r * N <= tn ;  tpr >= r  <->  r * P <= tp  (no division) *)
  Definition tnr_ge (r : t) (acc : sample -> bool) data : bool :=
    oleb O (omul O r (ofnat (nneg data))) (ofnat (tn_of acc data)).
  Definition tpr_ge (r : t) (acc : sample -> bool) data : bool :=
    oleb O (omul O r (ofnat (npos data))) (ofnat (tp_of acc data)).

  (* distinct distances in increasing order *)
  Fixpoint insert_u (x : t) (l : list t) : list t :=
    match l with
    | [] => [x]
    | y :: l' => if oltb O x y then x :: l else if oltb O y x then y :: insert_u x l' else l
    end.
  Definition distinct_sorted (ds : list t) : list t := fold_right insert_u [] ds.
  Definition candidates (data : list sample) : list cut :=
    RejectAll :: map At (distinct_sorted (map fst data)).

  (* first maximiser *)
  Fixpoint argmax_nat {A} (key : A -> nat) (best : A) (l : list A) : A :=
    match l with
    | [] => best
    | x :: l' => if Nat.ltb (key best) (key x) then argmax_nat key x l' else argmax_nat key best l'
    end.
  Fixpoint argmax_t {A} (key : A -> t) (best : A) (l : list A) : A :=
    match l with
    | [] => best
    | x :: l' => if oltb O (key best) (key x) then argmax_t key x l' else argmax_t key best l'
    end.

  Definition calib_accuracy (data : list sample) : cut :=
    argmax_nat (fun c => correct_of (accepts_c c) data) RejectAll (candidates data).

  Definition calib_fbeta (beta : t) (data : list sample) : cut :=
    match map At (distinct_sorted (map fst data)) with
    | [] => RejectAll
    | c :: cs => argmax_t (fun c => fbeta_of beta (accepts_c c) data) c cs
    end.

  Definition calib_max_tpr (r : t) (data : list sample) : cut :=
    match filter (fun c => tnr_ge r (accepts_c c) data) (candidates data) with
    | [] => RejectAll
    | c :: cs => argmax_nat (fun c => tp_of (accepts_c c) data) c cs
    end.

  Definition calib_max_tnr (r : t) (data : list sample) : cut :=
    match filter (fun c => tpr_ge r (accepts_c c) data) (candidates data) with
    | [] => RejectAll
    | c :: cs => argmax_nat (fun c => tn_of (accepts_c c) data) c cs
    end.

  (* the cut-off with the same predictions as an arbitrary threshold thr *)
  Fixpoint maxle (thr : t) (ds : list t) : option t :=
    match ds with
    | [] => None
    | d :: ds' =>
        match maxle thr ds' with
        | None => if oleb O d thr then Some d else None
        | Some m => if oleb O d thr then (if oleb O m d then Some d else Some m) else Some m
        end
    end.
  Definition cut_of (thr : t) (data : list sample) : cut :=
    match maxle thr (map fst data) with None => RejectAll | Some m => At m end.

  (* _validate_calibration_params, as a decision on already-classified arguments *)
  Inductive strategy := SAccuracy | SFbeta | SMaxTpr | SMaxTnr | SOther.
End Cal.
