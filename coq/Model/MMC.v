(* Model of _BaseMMC._fit_full's outer loop (mmc.py) over abstract oracles, and of the budget.
   The inner alternating projection (half-space step + eigenvalue clipping, an eigh oracle) is a
   function [project] returning the projected matrix and the `satisfy` flag; the dissimilarity
   objective and the ascent direction are arbitrary functions.  What the loop keeps (A_old) is what
   fit returns. *)
From Coq Require Import List Arith Bool ZArith.
From ML Require Import Ops Vec NP LinAlg.
Import ListNotations.

Section Outer.
  Variable M : Type.                       (* matrices *)
  Variable project : M -> M * bool.        (* (projected A, satisfy) *)
  Variable better : M -> M -> bool.        (* obj(A) > obj(A_old) *)
  Variable step_from : M -> nat -> M.      (* next trial point from a kept iterate (gradient ascent) *)
  Variable retry_from : M -> nat -> M.     (* next trial point after a rejected cycle *)

  Record ost := { cur : M; kept : M }.
  Definition cycle (c : nat) (s : ost) : ost :=
    let '(A1, sat) := project (cur s) in
    if sat && (better A1 (kept s) || Nat.eqb c 0)
    then {| cur := step_from A1 c; kept := A1 |}
    else {| cur := retry_from (kept s) c; kept := kept s |}.
  Fixpoint cycles (c n : nat) (s : ost) : ost :=
    match n with 0%nat => s | S n' => cycles (S c) n' (cycle c s) end.
  Definition mmc_result (A_init : M) (n : nat) : M := kept (cycles 0 n {| cur := A_init; kept := A_init |}).
End Outer.

Section Budget.
  Context {O : Ops}.
  Notation t := (T O).
  (* sum over similar pairs of the squared learned distance v^T A v *)
  Definition fS (A : list (list t)) (vs : list (list t)) : t := vsum (map (fun v => quadform A v) vs).
  (* eigenvalue clipping: V diag(max(0, l)) V^T, V given by its columns *)
  Definition clip_form (d : nat) (l : list t) (Vcols : list (list t)) : list (list t) :=
    wgram d (map (fun a => omax O (o0 O) a) l) Vcols.
  (* diagonal variant: w = max(0, w - lambda * step) *)
  Definition diag_step (w step : list t) (lambd : t) : list t :=
    map2 (fun a s => omax O (o0 O) (osub O a (omul O lambd s))) w step.
End Budget.
