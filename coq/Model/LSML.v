(* Model of _BaseLSML (lsml.py): weighted squared-hinge comparison loss on sqrt distances,
   LogDet regulariser, its gradient, and the step acceptance rule.  log det and the matrix inverse
   are oracle inputs (numpy slogdet / inv); the candidate metrics of the line search (eigenvalue
   floor via eigh) are oracle inputs of the acceptance model. *)
From Coq Require Import List Arith Bool ZArith.
From ML Require Import Ops Vec NP LinAlg.
Import ListNotations.

Section L.
  Context {O : Ops}.
  Notation t := (T O).
  Notation vec := (list t).
  Notation mat := (list (list t)).

  (* one quadruplet: differences a-b and c-d, weight w *)
  Record quad := { qab : vec; qcd : vec; qw : t }.

  Definition dM (M : mat) (v : vec) : t := quadform M v.
  Definition violated (M : mat) (q : quad) : bool := oltb O (dM M (qcd q)) (dM M (qab q)).   (* dab > dcd *)
  (* per-constraint hinge term (sqrt dab - sqrt dcd)^2, zero when the constraint holds *)
  Definition hinge (M : mat) (q : quad) : t :=
    if violated M q then
      let e := osub O (osqrt O (dM M (qab q))) (osqrt O (dM M (qcd q))) in omul O e e
    else o0 O.
  Definition comparison_loss (M : mat) (qs : list quad) : t :=
    vsum (map (fun q => omul O (qw q) (hinge M q)) qs).
  (* total loss = comparison loss + tr(M P) - logdet M *)
  Definition trace_prod (M P : mat) : t := vsum (map2 (fun r s => vdot r s) M P).
  Definition total_loss (M P : mat) (logdet : t) (qs : list quad) : t :=
    oadd O (comparison_loss M qs) (osub O (trace_prod M P) logdet).

  (* gradient: P - M^-1 + sum_viol w * [(1 - sqrt(dcd/dab)) ab ab^T + (1 - sqrt(dab/dcd)) cd cd^T] *)
  Definition grad_term (M : mat) (q : quad) : mat :=
    let dab := dM M (qab q) in let dcd := dM M (qcd q) in
    madd (mscale (omul O (qw q) (osub O (o1 O) (osqrt O (odiv O dcd dab)))) (outer (qab q) (qab q)))
         (mscale (omul O (qw q) (osub O (o1 O) (osqrt O (odiv O dab dcd)))) (outer (qcd q) (qcd q))).
  Definition gradient (d : nat) (M P Minv : mat) (qs : list quad) : mat :=
    fold_right (fun q G => if violated M q then madd (grad_term M q) G else G)
               (map2 vsub P Minv) qs.

  (* line search: among candidate (loss, metric) pairs keep the first one strictly better than the
     best so far *)
  Fixpoint search (best_s : t) (best_M : option mat) (cands : list (t * mat)) : t * option mat :=
    match cands with
    | [] => (best_s, best_M)
    | (s, Mc) :: more => if oltb O s best_s then search s (Some Mc) more else search best_s best_M more
    end.
  (* outer loop over oracle-provided candidate lists (one list per iteration) *)
  Fixpoint descend (s : t) (M : mat) (iters : list (list (t * mat))) : t * mat :=
    match iters with
    | [] => (s, M)
    | cands :: more =>
        match search s None cands with
        | (s', Some M') => descend s' M' more
        | (_, None) => (s, M)            (* no improving step: stop *)
        end
    end.
End L.
