(* Abstract estimator state machine (base_metric.py): what a sequence of API calls does to the
   fitted state.  The solver is a function [solve] of (hyper-parameters, data) -- that it IS one
   (determinism, no hidden state) is what the history differential of props/c17.py checks.
   The rule by which n_features_in_ is recorded, and whether get_metric's closure captures a
   copy, are translated from the source (gen/Src_prepare.v, gen/Src_query.v). *)
From Coq Require Import List Arith Bool.
Import ListNotations.

Inductive when_t := Always | OnlyWhenAbsent.
Inductive axis_t := LastAxis | Axis1.

Section Est.
  Variables (P D C T : Type).           (* hyper-parameters, training data, components, threshold *)
  Variable solve : P -> D -> C.         (* the learner *)
  Variable calib : P -> D -> C -> T.    (* threshold set by fit / calibrate_threshold *)
  Variable dshape : D -> list nat.      (* shape of the validated training array *)
  Variables (nfi_when : when_t) (nfi_axis : axis_t) (closure_copies : bool).

  Record est := { prm : P; comps : option C; thr : option T; nfi : option nat }.

  Inductive op :=
  | Fit (d : D) | SetParams (p : P) | SetThreshold (t : T) | Calibrate (d : D)
  | Query                     (* transform, pair_distance, predict, score, get_mahalanobis_matrix *)
  | GetMetric | CloneOp | PickleRoundTrip.

  Definition axis_of (d : D) : nat :=
    match nfi_axis with
    | LastAxis => last (dshape d) 0
    | Axis1 => nth 1 (dshape d) 0
    end.
  Definition record_nfi (old : option nat) (d : D) : option nat :=
    match nfi_when, old with
    | OnlyWhenAbsent, Some k => Some k
    | _, _ => Some (axis_of d)
    end.

  Definition step (e : est) (o : op) : est :=
    match o with
    | Fit d => let c := solve (prm e) d in
               {| prm := prm e; comps := Some c; thr := Some (calib (prm e) d c); nfi := record_nfi (nfi e) d |}
    | SetParams p => {| prm := p; comps := comps e; thr := thr e; nfi := nfi e |}
    | SetThreshold t => {| prm := prm e; comps := comps e; thr := Some t; nfi := nfi e |}
    | Calibrate d => match comps e with
                     | Some c => {| prm := prm e; comps := comps e; thr := Some (calib (prm e) d c);
                                    nfi := record_nfi (nfi e) d |}
                     | None => e
                     end
    | Query | GetMetric | CloneOp | PickleRoundTrip => e
    end.

  Definition run (e : est) (ops : list op) : est := fold_left step ops e.
  Definition fresh (p : P) : est := {| prm := p; comps := None; thr := None; nfi := None |}.

  (* what a closure handed out by get_metric computes with, when called after further operations *)
  Definition closure_components (at_call : est) (later : est) : option C :=
    if closure_copies then comps at_call else comps later.
End Est.
