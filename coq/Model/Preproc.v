(* Model of the preprocessor plumbing of _util.py: ArrayIndexer, preprocess_points,
   preprocess_tuples (column-by-column expansion, then stacking back in order). *)
From Coq Require Import List Arith.
Import ListNotations.

Section Pre.
  Context {I P : Type}.            (* indicators, formed points *)
  Variables (di : I) (dp : P).

  (* ArrayIndexer: X[indices] *)
  Definition indexer (X : list P) (idx : list nat) : list P := map (fun i => nth i X dp) idx.

  (* tuples[:, i] *)
  Definition icol (i : nat) (T : list (list I)) : list I := map (fun row => nth i row di) T.

  (* np.column_stack([preprocessor(tuples[:, i])[:, np.newaxis] for i in range(tuples.shape[1])]) *)
  Definition preprocess_tuples (pre : list I -> list P) (width : nat) (T : list (list I)) : list (list P) :=
    let cols := map (fun i => pre (icol i T)) (seq 0 width) in
    map (fun j => map (fun c => nth j c dp) cols) (seq 0 (length T)).

  Definition preprocess_points (pre : list I -> list P) (pts : list I) : list P := pre pts.
End Pre.
