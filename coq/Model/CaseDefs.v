(* Boolean checkers evaluated by vm_compute inside generated case files.
   Checkers that run the *generated* query API are in CaseDefsQuery.v; the carriers are
   FOps (exact lane: bit-exact) and QOps (tolerance lane: exact rationals). *)
From Coq Require Import List ZArith QArith Qreduction Bool.
From Coq Require PrimFloat.
From ML Require Import Ops Vec NP QIO FloatIO.
Import ListNotations.

Notation fl := PrimFloat.float.

(* ---------------- helpers shared with CaseDefsQuery.v -------------------------------------- *)
Definition pt (tp : list (list fl)) (i : nat) : list fl := nth i tp [].

Definition sq (a : Q) : Q := Qred (a * a).

Definition absbound (L : list (list Q)) (x x' : list Q) : Q :=
  @vsumsq QOps (@mvmul QOps (mabsQ L) (vabsQ (@vsub QOps x' x))).

Definition dist_ok (tol : Q) (L : list (list Q)) (tp : list (list Q)) (q : Q) (d : option Q) : bool :=
  match d with
  | None => false
  | Some dv =>
      Qle_bool 0 dv &&
      Qle_bool (qabs (Qred (sq dv - q))) (Qred (tol * absbound L (nth 0 tp []) (nth 1 tp [])))
  end.

Definition entry_ok (tol : Q) (m a : Q) (v : option Q) : bool :=
  match v with None => false | Some x => Qle_bool (qabs (Qred (x - m))) (Qred (tol * a)) end.


(* ---------------- C16 ---------------------------------------------------------------------- *)
From ML Require Import Calibrate.

Definition mindist (data : list (Q * bool)) : Q :=
  match @distinct_sorted QOps (map fst data) with [] => 0 | d :: _ => d end.

(* thr_impl: None = -infinity *)
Definition c16_accuracy (data : list (Q * bool)) (thr_impl : option Q) : bool :=
  match @calib_accuracy QOps data, thr_impl with
  | RejectAll, Some t => negb (Qle_bool (mindist data) t)      (* any threshold below the smallest distance rejects every pair *)
  | At d, Some t => qeqb t d
  | _, None => false
  end.
Definition cut_matches (c : @cut QOps) (thr_impl : option Q) : bool :=
  match c, thr_impl with
  | RejectAll, None => true
  | At d, Some t => qeqb t d
  | _, _ => false
  end.
Definition c16_max_tpr (r : Q) (data : list (Q * bool)) (thr_impl : option Q) : bool :=
  cut_matches (@calib_max_tpr QOps r data) thr_impl.
Definition c16_max_tnr (r : Q) (data : list (Q * bool)) (thr_impl : option Q) : bool :=
  cut_matches (@calib_max_tnr QOps r data) thr_impl.
(* F-beta: the implementation's threshold must attain the model's optimum (ties between
   mathematically equal F values may be broken differently by rounding) *)
Definition c16_fbeta (beta : Q) (data : list (Q * bool)) (thr_impl : option Q) : bool :=
  match thr_impl with
  | None => false
  | Some t =>
      Qle_bool (Qred (@fbeta_of QOps beta (@accepts_c QOps (@calib_fbeta QOps beta data)) data - tol_1e9))
               (@fbeta_of QOps beta (@accepts QOps t) data)
  end.

(* ---------------- C07 ---------------------------------------------------------------------- *)
From ML Require Import Constraints.

Definition subsetp (a b : list (nat * nat)) : bool := forallb (fun p => memp p b) a.
Definition same_setp (a b : list (nat * nat)) : bool :=
  subsetp a b && subsetp b a && Nat.eqb (length a) (length b).

Definition c07_pairs (labels : list Z) (n : nat) (same : bool) (iters : list (list nat * list nat))
    (impl : list (nat * nat)) (impl_warned : bool) : bool :=
  match pairs_model labels n same 10 iters with
  | Some (ps, w) => same_setp ps impl && Bool.eqb w impl_warned
  | None => false
  end.

(* chunks: impl = chunk id per point (-1 = none), or an exception *)
Definition chunk_of (assign : list (nat * nat)) (i : nat) : Z :=
  match find (fun p => Nat.eqb (fst p) i) assign with Some p => Z.of_nat (snd p) | None => (-1)%Z end.
Definition c07_chunks (labels : list Z) (n_chunks chunk_size : nat) (steps : list chunk_step)
    (impl : option (list Z)) : bool :=
  match chunks_model labels n_chunks chunk_size steps, impl with
  | ChunksError, None => true
  | ChunksOk a, Some ch =>
      zveq (map (chunk_of a) (seq 0 (length labels))) ch &&
      (* the two clauses that are not mechanised: disjoint chunks, exactly n_chunks of them *)
      nodupb (map fst a) && Nat.eqb (length a) (n_chunks * chunk_size)
  | _, _ => false
  end.

Definition eqt (p q : nat * nat * nat) : bool :=
  match p, q with (a, b, c), (a', b', c') => Nat.eqb a a' && Nat.eqb b b' && Nat.eqb c c' end.
(* per class: gen_indx, gen_neigh, imp_neigh in the known frame; the tables must have the
   documented contents (hypotheses of knn_class_sound) *)
Definition tables_ok (labels : list Z) (cls : list nat * list (list nat) * list (list nat)) : bool :=
  match cls with (gen_indx, gen_neigh, imp_neigh) =>
    let kl := known_labels labels in let n := length (known_idx labels) in
    forallb (fun i => i <? n) gen_indx &&
    forallb (fun rj => match rj with (a, row) =>
       forallb (fun j => (j <? n) && negb (Nat.eqb j a) && (nth j kl 0 =? nth a kl 0)%Z) row end)
       (combine gen_indx gen_neigh) &&
    forallb (fun rj => match rj with (a, row) =>
       forallb (fun j => (j <? n) && negb (nth j kl 0 =? nth a kl 0)%Z) row end)
       (combine gen_indx imp_neigh)
  end.
Definition c07_knn (labels : list Z) (cls : list (list nat * list (list nat) * list (list nat)))
    (impl : list (nat * nat * nat)) : bool :=
  forallb (tables_ok labels) cls &&
  all2 eqt (map (knn_to_caller (known_idx labels))
              (flat_map (fun c => match c with (g, gn, im) => knn_class g gn im end) cls)) impl.

(* ---------------- C06 ---------------------------------------------------------------------- *)
From ML Require Import Validate.

(* outcome of the implementation: 0 = returned (with ndim and shape), 1 = ValueError,
   2 = PreprocessorError, 3 = any other exception *)
Definition c06_case (d : desc) (y : ydesc) (pre : pre_t) (ty : input_type) (ts : option nat)
    (o : sk_opts) (impl_outcome : nat) (impl_ndim : nat) (impl_shape : list nat) : bool :=
  match check_input d y pre ty ts o with
  | Ok d' => Nat.eqb impl_outcome 0 && Nat.eqb impl_ndim (ndim d') &&
             all2 Nat.eqb impl_shape (shape d')
  | Raise ValueError => Nat.eqb impl_outcome 1
  | Raise PreprocessorError => Nat.eqb impl_outcome 2
  end.

(* ---------------- C20 / certificates ------------------------------------------------------- *)
From ML Require Import LinAlg PSDConv Cert.

Definition f_eps : fl := PrimFloat.div PrimFloat.one (float_of_Z (2 ^ 52)).

Definition sdp_code (r : sdp_result) : nat :=
  match r with SdpDefinite => 0 | SdpNotDefinite => 1 | SdpNonPSD => 2 | SdpValueError => 3 end.
Definition c20_sdp (w : list fl) (tol : option fl) (impl : nat) : bool :=
  let t := match tol with Some t => t | None => @default_tol FOps f_eps w end in
  Nat.eqb (sdp_code (@check_sdp FOps w t)) impl.

Definition init_code (k : init_kind) : nat := match k with InitLda => 0 | InitPca => 1 | InitIdentity => 2 end.
Definition c20_auto (has_classes : bool) (d n nc : nat) (ncls : Z) (impl : nat) : bool :=
  Nat.eqb (init_code (auto_select_init has_classes d n nc ncls)) impl.

Definition qmaxabs (A : list (list Q)) : Q :=
  fold_right (fun r m => fold_right (fun a m' => if Qle_bool (qabs a) m' then m' else qabs a) m r) 0 A.
Definition mclose (tol : Q) (A B : list (list Q)) : bool :=
  all2 (fun r s => all2 (fun a b => qwithin a b tol) r s) A B.
(* L^T L == M up to atol + rtol * max|M| *)
Definition c20_factor (d : nat) (rtol atol : Q) (M L : list (list Q)) : bool :=
  mclose (Qred (atol + rtol * qmaxabs M)) (@np_gram QOps d L) M.

Fixpoint dedupQ (X : list (list Q)) : list (list Q) :=
  match X with
  | [] => []
  | x :: X' => if existsb (fun y => all2 qeqb x y) X' then dedupQ X' else x :: dedupQ X'
  end.
Definition identQ (d : nat) : list (list Q) := @mident QOps d.
Definition msymQ (tol : Q) (A : list (list Q)) : bool := mclose tol A (@transp QOps A).
(* M is the (pseudo-)inverse of the covariance (divisor n-1) of the distinct points: Penrose equations *)
Definition c20_cov_pinv (rtol : Q) (pts M : list (list Q)) : bool :=
  let C := @cov QOps 1 (dedupQ pts) in
  let CM := @mmulg QOps C M in let MC := @mmulg QOps M C in
  let tC := Qred (rtol * qmaxabs C) in let tM := Qred (rtol * qmaxabs M) in
  mclose tC (@mmulg QOps CM C) C && mclose tM (@mmulg QOps MC M) M &&
  msymQ rtol CM && msymQ rtol MC.
Definition c20_inverse (rtol : Q) (A B : list (list Q)) : bool :=
  mclose rtol (@mmulg QOps A B) (identQ (length A)) && mclose rtol (@mmulg QOps B A) (identQ (length A)).
(* symmetric positive definite, by exact LDL^T pivots of the symmetrised matrix *)
(* Proofs/Hom.cert_pd_sound: cert_pd n S = true -> S (read over R) is positive definite *)
Definition c_spd (rtol : Q) (M : list (list Q)) : bool :=
  msymQ (Qred (rtol * qmaxabs M)) M && cert_pd (length M) (@msym QOps M).
(* positive semi-definite up to eps_rel * max|M| *)
Definition c_psd (eps_rel : Q) (M : list (list Q)) : bool :=
  cert_pd (length M) (@add_eps_diag QOps (Qred (eps_rel * qmaxabs M + (1 # 1000000000000000000000000000000))) (@msym QOps M)).

(* ---------------- C03 ---------------------------------------------------------------------- *)
(* documented shape of components_: (n_components or n_features, n_features); fewer rows than
   features without n_components only in SCML's low-rank case *)
Definition shape_rule (nc : option nat) (d : nat) (lowrank_allowed : bool) (k dd : nat) : bool :=
  Nat.eqb dd d &&
  match nc with
  | Some c => Nat.eqb k c
  | None => if lowrank_allowed then (k <=? d) else Nat.eqb k d   (* SCML: as many rows as active bases, possibly none *)
  end.
Definition c03_case (nc : option nat) (d : nat) (lowrank_allowed : bool) (k dd : nat)
    (kind_float finite returns_self : bool) (nfi n_in n_out k_out : nat) (M : list (list Q)) : bool :=
  shape_rule nc d lowrank_allowed k dd && kind_float && finite && returns_self &&
  Nat.eqb nfi d && Nat.eqb n_out n_in && Nat.eqb k_out k &&
  msymQ (Qred (tol_1e12 * qmaxabs M)) M && c_psd tol_1e9 M.

(* ---------------- C15 ---------------------------------------------------------------------- *)
From ML Require Import SCML.
Definition fclose (rtol atol a b : fl) : bool :=
  PrimFloat.leb (PrimFloat.abs (PrimFloat.sub a b))
    (PrimFloat.add atol (PrimFloat.mul rtol (PrimFloat.add (PrimFloat.abs a) (PrimFloat.abs b)))).
Definition fvclose (rtol atol : fl) := all2 (fclose rtol atol).
Definition f1em6 : fl := PrimFloat.div PrimFloat.one (float_of_Z 1000000).
Definition f1em7 : fl := PrimFloat.div PrimFloat.one (float_of_Z 10000000).
Definition f1em9 : fl := PrimFloat.div PrimFloat.one (float_of_Z 1000000000).
Definition f1em12 : fl := PrimFloat.div PrimFloat.one (float_of_Z 1000000000000).

(* result: 0 = agree, 1 = disagree, 2 = skipped (ill conditioned: a hinge test within 1e-6 of zero) *)
Definition c15_run (gam bet : fl) (batch out_iter : nat) (B : list (list fl))
    (trip : list (list fl * list fl * list fl)) (batches : list (list nat)) (best_w : list fl) : nat :=
  let p := @Build_params FOps gam bet (PrimFloat.div PrimFloat.one (float_of_Z 1000)) batch out_iter in
  let D := @dist_diff FOps B trip in
  let nb := length B in
  let s0 := @init FOps nb in
  let margin := @run_margin FOps p D nb 0 batches s0 PrimFloat.one in
  if PrimFloat.ltb margin f1em6 then 2
  else match best (@run FOps p D nb 0 batches s0) with
       | Some (_, bw) => if fvclose f1em7 f1em12 bw best_w && forallb (PrimFloat.leb PrimFloat.zero) best_w then 0 else 1
       | None => 1
       end.
(* the learned metric is sum_i w_i b_i b_i^T (exact rationals, tolerance relative to max|M|) *)
Definition c15_metric (d : nat) (wv : list Q) (B M : list (list Q)) : bool :=
  forallb (Qle_bool 0) wv &&
  mclose (Qred (tol_1e9 * qmaxabs M)) (@wgram QOps d wv B) M.

(* ---------------- C11 ---------------------------------------------------------------------- *)
From ML Require Import ITML.
Definition fmclose (rtol atol : fl) := all2 (fvclose rtol atol).
Definition fmaxabs (A : list (list fl)) : fl :=
  fold_right (fun r m => fold_right (fun a m' => if PrimFloat.leb (PrimFloat.abs a) m' then m' else PrimFloat.abs a) m r)
             PrimFloat.zero A.
(* re-run of the documented projections on binary64: final A, duals *)
Definition c11_run (g : option fl) (A0 : list (list fl)) (vs : list (list fl * bool)) (lo hi : fl)
    (n_sweeps : nat) (A_impl : list (list fl)) (lam_impl bhat_impl : list fl) : bool :=
  let cs := map (fun vb => @Build_cstr FOps (fst vb) (snd vb)) vs in
  let s := @run FOps g cs n_sweeps (@init FOps A0 cs lo hi) in
  let tolA := PrimFloat.mul f1em6 (fmaxabs A_impl) in
  fmclose PrimFloat.zero tolA (A s) A_impl &&
  fvclose f1em6 f1em9 (map (@lam FOps) (duals s)) lam_impl &&
  fvclose f1em6 f1em9 (map (@bhat FOps) (duals s)) bhat_impl.

(* the stopping rule: the model's loop (sweeps until the change of the dual variables is below tol or max_iter
   sweeps were run) stops after the same number of sweeps as the implementation; tol is also tried 1e-6 (relative)
   lower and higher, so that rounding in the convergence measure cannot decide *)
Definition c11_stop (g : option fl) (A0 : list (list fl)) (vs : list (list fl * bool)) (lo hi tol : fl)
    (max_iter n_iter_impl : nat) : bool :=
  let cs := map (fun vb => @Build_cstr FOps (fst vb) (snd vb)) vs in
  let n (tl : fl) := snd (@fit_loop FOps g cs tl max_iter A0 lo hi) in
  Nat.eqb (n tol) n_iter_impl ||
  Nat.eqb (n (PrimFloat.mul tol (PrimFloat.sub PrimFloat.one f1em6))) n_iter_impl ||
  Nat.eqb (n (PrimFloat.mul tol (PrimFloat.add PrimFloat.one f1em6))) n_iter_impl.

(* the certificate of the first sentence of C11, on the implementation's own numbers (exact rationals):
   M symmetric positive definite, lambda >= 0, M * (M0^-1 + sum_i y_i lambda_i v_i v_i^T) = I *)
Definition c11_certificate (d : nat) (M M0 : list (list Q)) (vs : list (list Q * bool)) (lams : list Q) : bool :=
  c_spd tol_1e9 M && forallb (Qle_bool 0) lams &&
  match @minv QOps M0 with
  | None => false
  | Some B0 =>
      let signed := map2 (fun (vb : list Q * bool) (l : Q) => if snd vb then l else Qopp l) vs lams in
      let B := @madd QOps B0 (@wgram QOps d signed (map fst vs)) in
      mclose tol_1e6 (@mmulg QOps M B) (identQ d)
  end.

(* ---------------- C14 ---------------------------------------------------------------------- *)
From ML Require Import MMC.
(* full-matrix MMC: M is PSD and sum_S v^T M v <= 1.01 * (sum_S v^T A_init v) / 100 *)
Definition c14_full (M A_init : list (list Q)) (pos_vs : list (list Q)) : bool :=
  c_psd tol_1e9 M &&
  Qle_bool (@fS QOps M pos_vs) (Qred ((101 # 100) * (@fS QOps A_init pos_vs) / 100 + tol_1e12)).
Definition c14_diag (M : list (list Q)) : bool :=
  forallb (fun ir => forallb (fun ja => if Nat.eqb (fst ir) (fst ja) then Qle_bool 0 (snd ja) else qeqb (snd ja) 0)
                             (combine (seq 0 (length (snd ir))) (snd ir)))
          (combine (seq 0 (length M)) M).

(* ---------------- C12 ---------------------------------------------------------------------- *)
From ML Require Import LSML.
(* the code's _total_loss and _gradient against the documented weighted formulas (binary64);
   logdet and M^-1 are the values numpy handed to the code *)
Definition c12_loss_grad (d : nat) (M P Minv : list (list fl)) (logdet : fl)
    (qs : list (list fl * list fl * fl)) (loss_impl : fl) (grad_impl : list (list fl)) : bool :=
  let quads := map (fun q => match q with (a, c, w) => @Build_quad FOps a c w end) qs in
  let l := @total_loss FOps M P logdet quads in
  let G := @gradient FOps d M P Minv quads in
  fclose f1em9 f1em12 l loss_impl &&
  fmclose f1em7 (PrimFloat.mul f1em9 (PrimFloat.add PrimFloat.one (fmaxabs grad_impl))) G grad_impl.

(* ---------------- C13 ---------------------------------------------------------------------- *)
From ML Require Import SDML.
(* (a) the matrix handed to the graphical lasso is the documented one; (b) KKT certificate of the
   returned M on exact rationals, M^-1 by exact Gauss-Jordan; (c) M symmetric positive definite *)
Definition c13_case (d : nat) (prior_inv : list (list Q)) (balance alpha : Q) (ys : list Q) (diffs : list (list Q))
    (S_impl M : list (list Q)) : bool :=
  let S := @emp_cov QOps d prior_inv balance ys diffs in
  mclose (Qred (tol_1e9 * qmaxabs S)) S S_impl &&
  c_spd tol_1e9 M &&
  match @minv QOps M with
  | None => false
  | Some Minv => @glasso_kkt QOps alpha (Qred ((5 # 1000) * qmaxabs S)) S Minv M
  end.

(* ---------------- C09 ---------------------------------------------------------------------- *)
(* Covariance: M is the Moore-Penrose pseudo-inverse of the sample covariance (divisor n-1) *)
Definition penrose (rtol : Q) (C M : list (list Q)) : bool :=
  let CM := @mmulg QOps C M in let MC := @mmulg QOps M C in
  let tC := Qred (rtol * qmaxabs C) in let tM := Qred (rtol * qmaxabs M) in
  mclose tC (@mmulg QOps CM C) C && mclose tM (@mmulg QOps MC M) M && msymQ rtol CM && msymQ rtol MC.
Definition c09_covariance (X M : list (list Q)) : bool := penrose tol_1e6 (@cov QOps 1 X) M.

(* RCA: within-chunk covariance (chunk-centred points, divisor = number of chunked points) and
   L C L^T = I_k;  for k = d also M C = I *)
Definition chunk_centered (X : list (list Q)) (chunks : list Z) (nchunks : nat) : list (list Q) :=
  flat_map (fun c => let rows := map fst (filter (fun xc => Z.eqb (snd xc) (Z.of_nat c)) (combine X chunks)) in
                     match rows with [] => [] | _ => @center QOps rows end) (seq 0 nchunks).
Definition inner_cov (X : list (list Q)) (chunks : list Z) (nchunks : nat) : list (list Q) :=
  let Xc := chunk_centered X chunks nchunks in
  let n := inject_Z (Z.of_nat (length Xc)) in
  map (map (fun a => Qred (a / n))) (@mmulg QOps (@transp QOps Xc) Xc).
Definition c09_rca (X : list (list Q)) (chunks : list Z) (nchunks : nat) (L : list (list Q)) : bool :=
  let C := inner_cov X chunks nchunks in
  mclose tol_1e6 (@mmulg QOps (@mmulg QOps L C) (@transp QOps L)) (identQ (length L)).

(* ---------------- C10 ---------------------------------------------------------------------- *)
From ML Require Import FExp Objectives.
Definition c10_nca (L X : list (list fl)) (y : list Z) (loss_impl : fl) : bool :=
  fclose f1em9 f1em12 (@nca_obj FOps fexp L X y) loss_impl.
(* the gradient NCA hands to the optimiser against the Coq model of 2 (X L^T)^T S X (Model/NCAGrad.v), the model the
   derivative theorem C10_nca_gradient is about; also its loss in index form *)
From ML Require Import NCAGrad.
Definition c10_nca_grad (k d : nat) (L X : list (list fl)) (y : list Z) (loss_impl : fl) (grad_impl : list (list fl)) : bool :=
  fclose f1em9 f1em12 (@nca_loss FOps fexp L X y) loss_impl &&
  fmclose f1em6 (PrimFloat.mul f1em9 (PrimFloat.add PrimFloat.one (fmaxabs grad_impl)))
          (@nca_grad FOps fexp k d L X y) grad_impl.
Definition c10_mlkr_grad (k d : nat) (L X : list (list fl)) (y : list fl) (loss_impl : fl) (grad_impl : list (list fl)) : bool :=
  fclose f1em9 f1em12 (@mlkr_loss FOps fexp L X y) loss_impl &&
  fmclose f1em6 (PrimFloat.mul f1em9 (PrimFloat.add PrimFloat.one (fmaxabs grad_impl)))
          (@mlkr_grad FOps fexp k d L X y) grad_impl.
Definition c10_mlkr (L X : list (list fl)) (y : list fl) (loss_impl : fl) : bool :=
  fclose f1em9 f1em12 (@mlkr_obj FOps fexp L X y) loss_impl.
Definition c10_lmnn (reg : fl) (L X : list (list fl)) (y : list Z) (targets : list (list nat)) (obj_impl : fl) : bool :=
  fclose f1em9 f1em9 (@lmnn_obj FOps reg L X y targets) obj_impl.
