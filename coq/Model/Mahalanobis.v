(* Executable model of MahalanobisMixin's query API (base_metric.py). No proofs here. *)
From Coq Require Import List Bool.
From ML Require Import Ops Vec NP.
Import ListNotations.

Section M.
  Context {O : Ops}.
  Notation t := (T O).
  Notation vec := (list t).
  Notation mat := (list (list t)).

  (* transform: X.dot(L.T) -- row i of the result is L x_i *)
  Definition transform (L : mat) (X : list vec) : list vec := map (mvmul L) X.

  (* pair_distance: embed x' - x, row-wise 2-norm *)
  Definition sqdist (L : mat) (x x' : vec) : t := vsumsq (mvmul L (vsub x' x)).
  Definition dist (L : mat) (x x' : vec) : t := osqrt O (sqdist L x x').
  Definition pair_distance (L : mat) (P : list (vec * vec)) : list t :=
    map (fun p => dist L (fst p) (snd p)) P.
  Definition pair_sqdist (L : mat) (P : list (vec * vec)) : list t :=
    map (fun p => sqdist L (fst p) (snd p)) P.
  (* pair_score = -1 * pair_distance *)
  Definition pair_score (L : mat) (P : list (vec * vec)) : list t :=
    map (oopp O) (pair_distance L P).
  Definition score_pairs := pair_distance.

  (* closure returned by get_metric: (u - v).dot(L.T) then dot with itself *)
  Definition metric_fun (L : mat) (u v : vec) (squared : bool) : t :=
    let e := mvmul L (vsub u v) in
    let d := vdot e e in
    if squared then d else osqrt O d.

  (* get_mahalanobis_matrix: L.T.dot(L) = sum over rows r of r r^T *)
  Definition mahalanobis (d : nat) (L : mat) : mat := np_gram d L.

  Definition euclid (a b : vec) : t := osqrt O (vsumsq (vsub b a)).
End M.
