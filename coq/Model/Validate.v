(* Executable model of the input validators of metric_learn/_util.py over array descriptors.
   [check_input] mirrors the control flow of the source (dimension dispatch, preprocessor
   application, scikit-learn checks, tuple size, pair labels); [documented_form] is the
   specification.  scikit-learn's check_array / check_X_y are modelled by [sk_bad] (an oracle
   model, validated against the installed scikit-learn on the whole descriptor grammar). *)
From Coq Require Import List Arith Bool.
Import ListNotations.

Inductive dkind := KFloat | KInt | KBool | KComplex | KObjNum | KObjNone | KStr.
Inductive yform := YNone | YPm1 | YOtherNum | YNan | YStr | Y2D.

Record desc := {
  ndim : nat;
  shape : list nat;       (* length = ndim *)
  kind : dkind;
  nonfinite : bool        (* contains NaN or +-inf *)
}.
Record ydesc := { yf : yform; ylen : nat }.

Inductive exn := ValueError | PreprocessorError.
Inductive result (A : Type) := Ok (a : A) | Raise (e : exn).
Arguments Ok {A} _.
Arguments Raise {A} _.

Record sk_opts := { ensure_min_samples : nat; ensure_min_features : nat; force_finite : bool }.
Definition default_opts := {| ensure_min_samples := 1; ensure_min_features := 1; force_finite := true |}.

Definition dim (d : desc) (i : nat) : nat := nth i (shape d) 0.
Definition is_numeric (k : dkind) : bool :=
  match k with KFloat | KInt | KBool | KObjNum => true | _ => false end.

(* first, permissive conversion: check_array(ensure_2d=False, allow_nd=True, dtype=None,
   no finiteness / size checks) -- only complex data is refused *)
Definition sk_bad_permissive (d : desc) : bool :=
  match kind d with KComplex => true | _ => false end.

(* check_array(allow_nd=True, ensure_2d=False, dtype='numeric', **opts) *)
Definition sk_bad (o : sk_opts) (d : desc) : bool :=
  match kind d with KComplex | KStr => true | KObjNone => true | _ => false end
  || (force_finite o && nonfinite d)
  || ((0 <? ndim d) && (dim d 0 <? ensure_min_samples o))
  || (Nat.eqb (ndim d) 2 && (dim d 1 <? ensure_min_features o)).

(* check_X_y's treatment of y (multi_output=False) *)
Definition y_bad (n_samples : nat) (y : ydesc) : bool :=
  match yf y with
  | YNone => false
  | Y2D => true
  | YNan => true
  | _ => negb (Nat.eqb (ylen y) n_samples)
  end.

(* a preprocessor applied to an array of indicators: what it returns (formed data) or failure *)
Definition pre_t := option (result desc).   (* None: no preprocessor *)

Definition check_input_classic (d : desc) (pre : pre_t) (o : sk_opts) : result desc :=
  let step1 : result desc :=
    if Nat.eqb (ndim d) 1 then
      match pre with
      | Some (Ok formed) => Ok formed
      | Some (Raise _) => Raise PreprocessorError
      | None => Raise ValueError
      end
    else if Nat.eqb (ndim d) 2 then Ok d else Raise ValueError in
  match step1 with
  | Raise e => Raise e
  | Ok d1 =>
      if sk_bad o d1 then Raise ValueError
      else if negb (Nat.eqb (ndim d1) 2) then Raise ValueError else Ok d1
  end.

Definition check_input_tuples (d : desc) (pre : pre_t) (o : sk_opts) (tuple_size : option nat)
  : result desc :=
  let step1 : result desc :=
    if Nat.eqb (ndim d) 2 then
      match pre with
      | Some (Ok formed) => Ok formed
      | Some (Raise _) => Raise PreprocessorError
      | None => Raise ValueError
      end
    else if Nat.eqb (ndim d) 3 then Ok d else Raise ValueError in
  match step1 with
  | Raise e => Raise e
  | Ok d1 =>
      if sk_bad o d1 then Raise ValueError
      else if (0 <? ensure_min_features o) && (dim d1 2 <? ensure_min_features o) then Raise ValueError
      else if negb (Nat.eqb (ndim d1) 3) then Raise ValueError
      else match tuple_size with
           | Some t => if negb (Nat.eqb (dim d1 1) t) then Raise ValueError else Ok d1
           | None => Ok d1
           end
  end.

Inductive input_type := Classic | Tuples.

Definition check_input (d : desc) (y : ydesc) (pre : pre_t) (ty : input_type)
    (tuple_size : option nat) (o : sk_opts) : result desc :=
  if sk_bad_permissive d then Raise ValueError
  else if y_bad (dim d 0) y then Raise ValueError
  else match ty with
       | Classic => check_input_classic d pre o
       | Tuples =>
           match check_input_tuples d pre o tuple_size with
           | Raise e => Raise e
           | Ok d1 =>
               (* pair labels must be +-1 *)
               match yf y with
               | YNone => Ok d1
               | YPm1 => Ok d1
               | _ => if Nat.eqb (dim d1 1) 2 then Raise ValueError else Ok d1
               end
           end
       end.

(* _check_n_components *)
Definition check_n_components (n_features : nat) (nc : option nat) : result nat :=
  match nc with
  | None => Ok n_features
  | Some k => if (0 <? k) && (k <=? n_features) then Ok k else Raise ValueError
  end.

(* ---------------- the documented form ---------------- *)
Definition formed_ok (ty : input_type) (tuple_size : option nat) (o : sk_opts) (d : desc) : bool :=
  is_numeric (kind d) && negb (force_finite o && nonfinite d) &&
  match ty with
  | Classic => Nat.eqb (ndim d) 2 && (ensure_min_samples o <=? dim d 0) && (ensure_min_features o <=? dim d 1)
  | Tuples => Nat.eqb (ndim d) 3 && (ensure_min_samples o <=? dim d 0) && (ensure_min_features o <=? dim d 2) &&
              match tuple_size with Some t => Nat.eqb (dim d 1) t | None => true end
  end.

Definition labels_ok (ty : input_type) (n_samples : nat) (tuple : nat) (y : ydesc) : bool :=
  match yf y with
  | YNone => true
  | YPm1 => Nat.eqb (ylen y) n_samples
  | YOtherNum | YStr => Nat.eqb (ylen y) n_samples &&
                        match ty with Classic => true | Tuples => negb (Nat.eqb tuple 2) end
  | YNan | Y2D => false
  end.
