(* Executable model of metric_learn/constraints.py (integers and lists only).
   Randomness is an explicit argument: the recorded outputs of random_state.randint and
   random_state.choice, so every theorem holds for EVERY sequence of random outputs. *)
From Coq Require Import List Arith Bool ZArith Lia.
Import ListNotations.

Definition lab (labels : list Z) (i : nat) : Z := nth i labels (-1)%Z.

(* np.where(partial_labels >= 0) *)
Definition known_idx (labels : list Z) : list nat :=
  filter (fun i => (0 <=? lab labels i)%Z) (seq 0 (length labels)).
Definition known_labels (labels : list Z) : list Z := map (lab labels) (known_idx labels).

(* b_choices, = np.where(mask): positions j of the known frame that may partner aidx *)
Definition partner_ok (kl : list Z) (same : bool) (aidx j : nat) : bool :=
  if same then (nth j kl 0 =? nth aidx kl 0)%Z && negb (Nat.eqb j aidx)
  else negb (nth j kl 0 =? nth aidx kl 0)%Z.
Definition b_choices (kl : list Z) (same : bool) (aidx : nat) : list nat :=
  filter (partner_ok kl same aidx) (seq 0 (length kl)).

Definition eqp (p q : nat * nat) : bool := Nat.eqb (fst p) (fst q) && Nat.eqb (snd p) (snd q).
Definition memp (p : nat * nat) (l : list (nat * nat)) : bool := existsb (eqp p) l.
Definition memn (x : nat) (l : list nat) : bool := existsb (Nat.eqb x) l.
(* set.add, remembering insertion order *)
Definition add_u (p : nat * nat) (ab : list (nat * nat)) : list (nat * nat) :=
  if memp p ab then ab else ab ++ [p].

(* the for-loop over one batch of randint outputs; [choices] are the outputs of the
   random_state.choice calls made during that batch.  None = the recorded stream does not
   fit the model (a choice outside b_choices, too few / too many outputs). *)
Fixpoint inner (kl : list Z) (same : bool) (aidxs choices : list nat) (ab : list (nat * nat))
  : option (list (nat * nat)) :=
  match aidxs with
  | [] => match choices with [] => Some ab | _ => None end
  | a :: rest =>
      if negb (a <? length kl) then None else
      match b_choices kl same a with
      | [] => inner kl same rest choices ab
      | bc =>
          match choices with
          | [] => None
          | c :: cs => if memn c bc then inner kl same rest cs (add_u (a, c) ab) else None
          end
      end
  end.

(* while it < max_iter and len(ab) < n_constraints *)
Fixpoint outer (kl : list Z) (same : bool) (n_constraints : nat)
    (iters : list (list nat * list nat)) (budget : nat) (ab : list (nat * nat))
  : option (list (nat * nat)) :=
  if (0 <? budget) && (length ab <? n_constraints) then
    match iters with
    | [] => None
    | (aidxs, choices) :: more =>
        if negb (length aidxs =? n_constraints - length ab) then None else
        match inner kl same aidxs choices ab with
        | Some ab' => outer kl same n_constraints more (budget - 1) ab'
        | None => None
        end
    end
  else match iters with [] => Some ab | _ => None end.

(* _pairs: result in the caller's index frame, plus the "fewer than requested" warning flag *)
Definition pairs_model (labels : list Z) (n_constraints : nat) (same : bool) (max_iter : nat)
    (iters : list (list nat * list nat)) : option (list (nat * nat) * bool) :=
  let kidx := known_idx labels in
  match outer (known_labels labels) same n_constraints iters max_iter [] with
  | Some ab => Some (map (fun p => (nth (fst p) kidx 0, nth (snd p) kidx 0)) ab,
                     length ab <? n_constraints)
  | None => None
  end.

(* ---------------- chunks ---------------- *)
(* class index sets in the order of np.unique over the known labels; the state of the loop is
   the list of remaining index lists.  Each iteration: a class position c (from randint, or 0
   when one class is left) and, when the class is big enough, the indices drawn by choice. *)
Inductive chunk_step :=
| Drop (c : nat)                    (* class too small: deleted *)
| Take (c : nat) (ii : list nat).   (* chunk_size members drawn without replacement *)

Definition remove_all (xs : list nat) (l : list nat) : list nat :=
  filter (fun x => negb (memn x xs)) l.
Fixpoint nodupb (l : list nat) : bool :=
  match l with [] => true | x :: l' => negb (memn x l') && nodupb l' end.
Fixpoint replace_nth {A} (n : nat) (x : A) (l : list A) : list A :=
  match l, n with
  | [], _ => []
  | _ :: l', O => x :: l'
  | y :: l', S n' => y :: replace_nth n' x l'
  end.
Fixpoint remove_nth {A} (n : nat) (l : list A) : list A :=
  match l, n with
  | [], _ => []
  | _ :: l', O => l'
  | y :: l', S n' => y :: remove_nth n' l'
  end.

(* chunks: assignment list (index, chunk id) *)
Fixpoint chunks_loop (chunk_size n_chunks : nat) (steps : list chunk_step)
    (all_inds : list (list nat)) (idx : nat) (acc : list (nat * nat)) : option (list (nat * nat)) :=
  if (idx <? n_chunks) && negb (Nat.eqb (length all_inds) 0) then
    match steps with
    | [] => None
    | Drop c :: more =>
        if (c <? length all_inds) && (length (nth c all_inds []) <? chunk_size)
        then chunks_loop chunk_size n_chunks more (remove_nth c all_inds) idx acc
        else None
    | Take c ii :: more =>
        let inds := nth c all_inds [] in
        if (c <? length all_inds) && negb (length inds <? chunk_size) &&
           (length ii =? chunk_size) && nodupb ii && forallb (fun i => memn i inds) ii
        then chunks_loop chunk_size n_chunks more (replace_nth c (remove_all ii inds) all_inds)
                         (S idx) (acc ++ map (fun i => (i, idx)) ii)
        else None
    end
  else match steps with [] => Some acc | _ => None end.

Fixpoint dedup_z (l : list Z) : list Z :=
  match l with
  | [] => []
  | x :: l' => if existsb (Z.eqb x) l' then dedup_z l' else x :: dedup_z l'
  end.
Fixpoint insert_z (x : Z) (l : list Z) : list Z :=
  match l with [] => [x] | y :: l' => if (x <=? y)%Z then x :: l else y :: insert_z x l' end.
Definition sort_z (l : list Z) : list Z := fold_right insert_z [] l.
(* np.unique of the known labels *)
Definition classes (labels : list Z) : list Z := sort_z (dedup_z (filter (fun z => (0 <=? z)%Z) labels)).
Definition class_inds (labels : list Z) : list (list nat) :=
  map (fun c => filter (fun i => (lab labels i =? c)%Z) (seq 0 (length labels))) (classes labels).
Definition max_chunks (labels : list Z) (chunk_size : nat) : nat :=
  fold_right (fun s acc => length s / chunk_size + acc) 0 (class_inds labels).

Inductive chunks_result :=
| ChunksError                               (* ValueError: not enough possible chunks *)
| ChunksOk (assign : list (nat * nat))      (* (point, chunk id); every other point is -1 *)
| ChunksStreamMismatch.

Definition chunks_model (labels : list Z) (n_chunks chunk_size : nat) (steps : list chunk_step)
  : chunks_result :=
  if max_chunks labels chunk_size <? n_chunks then ChunksError else
  match chunks_loop chunk_size n_chunks steps (class_inds labels) 0 [] with
  | Some a => ChunksOk a
  | None => ChunksStreamMismatch
  end.

(* ---------------- k-NN triplets ---------------- *)
(* comb(A, B, C, sizeB, sizeC): for every anchor a (row r): all (a, b, c) with b in row r of B
   and c in row r of C; B varies slowest inside an anchor *)
Definition comb_rows (A : list nat) (B C : list (list nat)) : list (nat * nat * nat) :=
  flat_map (fun abc => match abc with (a, bs, cs) =>
      flat_map (fun b => map (fun c => (a, b, c)) cs) bs end)
    (combine (combine A B) C).

(* one class: gen_indx (positions in the known frame), neighbour tables already expressed in the
   known frame (np.take(gen_indx, relative) / np.take(imp_indx, relative)) *)
Definition knn_class (gen_indx : list nat) (gen_neigh imp_neigh : list (list nat)) :=
  comb_rows gen_indx gen_neigh imp_neigh.

(* the documented result: triplets in the CALLER's frame *)
Definition knn_to_caller (kidx : list nat) (t : nat * nat * nat) : nat * nat * nat :=
  match t with (a, b, c) => (nth a kidx 0, nth b kidx 0, nth c kidx 0) end.

(* wrap_pairs: labels +1 for (a,b) pairs then -1 for (c,d) pairs *)
Definition wrap_pairs_model (a b c d : list nat) : list (nat * nat) * list Z :=
  (combine a b ++ combine c d, map (fun _ => 1%Z) a ++ map (fun _ => (-1)%Z) c).
