(* The documented objectives of NCA, MLKR and LMNN, written from the papers / the user guide
   (not from the code).  exp is a parameter [ex] (R: Coq's exp; binary64: Base/FExp.fexp). *)
From Coq Require Import List Arith Bool ZArith.
From ML Require Import Ops Vec NP LinAlg.
Import ListNotations.

Section Obj.
  Context {O : Ops}.
  Variable ex : T O -> T O.
  Notation t := (T O).
  Notation vec := (list t).
  Notation mat := (list (list t)).

  Definition sqd (L : mat) (x x' : vec) : t := vsumsq (mvmul L (vsub x x')).
  (* e_ij = exp(-|L x_i - L x_j|^2), j <> i *)
  Definition kern (L : mat) (X : mat) (i : nat) : vec :=
    map (fun jx => if Nat.eqb (fst jx) i then o0 O else ex (oopp O (sqd L (nth i X []) (snd jx))))
        (combine (seq 0 (length X)) X).
  (* NCA: sum_i sum_{j <> i, y_j = y_i} p_ij,  p_ij = e_ij / sum_k e_ik *)
  Definition nca_obj (L X : mat) (y : list Z) : t :=
    vsum (map (fun i => let e := kern L X i in
                        let same := map (fun ey => if Z.eqb (snd ey) (nth i y 0%Z) then fst ey else o0 O) (combine e y) in
                        odiv O (vsum same) (vsum e)) (seq 0 (length X))).
  (* MLKR: sum_i (yhat_i - y_i)^2, yhat_i = sum_{j<>i} e_ij y_j / sum_{k<>i} e_ik *)
  Definition mlkr_obj (L X : mat) (y : vec) : t :=
    vsum (map (fun i => let e := kern L X i in
                        let yhat := odiv O (vdot e y) (vsum e) in
                        let r := osub O yhat (nth i y (o0 O)) in omul O r r) (seq 0 (length X))).
  (* LMNN: reg * sum_{i, j in T(i)} d_ij + (1 - reg) * sum_{i, j in T(i)} sum_{l : y_l <> y_i} [1 + d_ij - d_il]_+ ,
     T(i) = target neighbours (oracle table of indices) *)
  Definition hinge0 (a : t) : t := if oltb O (o0 O) a then a else o0 O.
  Definition lmnn_obj (reg : t) (L X : mat) (y : list Z) (targets : list (list nat)) : t :=
    let n := length X in
    let pull := vsum (map (fun it => vsum (map (fun j => sqd L (nth (fst it) X []) (nth j X [])) (snd it)))
                          (combine (seq 0 n) targets)) in
    let push := vsum (map (fun it =>
                  let i := fst it in
                  vsum (map (fun j =>
                    let dij := sqd L (nth i X []) (nth j X []) in
                    vsum (map (fun l => if Z.eqb (nth l y 0%Z) (nth i y 0%Z) then o0 O
                                        else hinge0 (osub O (oadd O (o1 O) dij) (sqd L (nth i X []) (nth l X []))))
                              (seq 0 n))) (snd it))) (combine (seq 0 n) targets)) in
    oadd O (omul O reg pull) (omul O (osub O (o1 O) reg) push).
End Obj.

(* LMNN's step acceptance: a trial point is accepted only if the objective does not increase *)
Section Loop.
  Context {O : Ops}.
  Variable St : Type.
  Variable obj : St -> T O.
  (* trials of one iteration: successive halvings; the first whose objective is not larger is taken *)
  Fixpoint first_ok (cur : St) (trials : list St) : option St :=
    match trials with
    | [] => None
    | s :: more => if oltb O (obj cur) (obj s) then first_ok cur more else Some s
    end.
  Fixpoint lmnn_loop (cur : St) (iters : list (list St)) : list St :=   (* accepted iterates, in order *)
    match iters with
    | [] => []
    | trials :: more =>
        match first_ok cur trials with
        | Some s => s :: lmnn_loop s more
        | None => []
        end
    end.
End Loop.
