(* Boolean checkers that run the *generated* query API (gen/Src_query.v, regenerated from
   metric_learn/base_metric.py on every run) on the carriers FOps (exact lane: bit-exact) and QOps
   (tolerance lane: exact rationals).  Kept apart from CaseDefs.v so that the checkers of the other
   properties do not depend on the translation of base_metric.py. *)
From Coq Require Import List ZArith QArith Qreduction Bool.
From Coq Require PrimFloat.
From ML Require Import Ops Vec NP QIO FloatIO CaseDefs Classify.
From MLgen Require Import Src_query.
Import ListNotations.

(* ---------------- exact lane (binary64, every intermediate exactly representable) ------------- *)

Definition c01_exact (L : list (list fl)) (P : list (list (list fl)))
    (dist score mf mfsq : list fl) : bool :=
  fveq (@Src_query.pair_distance FOps L P) dist &&
  fveq (@Src_query.pair_score FOps L P) score &&
  fveq (map (fun tp => @Src_query.metric_fun FOps L (pt tp 0) (pt tp 1) false) P) mf &&
  fveq (map (fun tp => @Src_query.metric_fun FOps L (pt tp 0) (pt tp 1) true) P) mfsq &&
  forallb ffinite dist.

Definition c02_exact (d : nat) (L X : list (list fl)) (P : list (list (list fl)))
    (tr M : list (list fl)) (sp : list fl) : bool :=
  fmeq (@Src_query.transform FOps L X) tr &&
  fmeq (@Src_query.get_mahalanobis_matrix FOps d L) M &&
  fveq (@Src_query.score_pairs FOps L P) sp &&
  (* cross-views, computed by the model on the implementation's own M and transform *)
  fveq (map (fun tp => PrimFloat.sqrt (@quadform FOps M (@vsub FOps (pt tp 1) (pt tp 0)))) P) sp.

(* ---------------- tolerance lane (exact rationals) ------------------------------------------- *)
(* with QOps, osqrt is the identity, so the generated pair_distance denotes the SQUARED distance *)


(* implementation value d (None = not finite) against the exact squared distance *)

Definition c01_tol (L : list (list Q)) (P : list (list (list Q))) (dist mf : list (option Q)) : bool :=
  let qs := @Src_query.pair_distance QOps L P in
  all2 (fun tq d => dist_ok tol_1e12 L (fst tq) (snd tq) d) (combine P qs) dist &&
  all2 (fun tq d => dist_ok tol_1e12 L (fst tq) (snd tq) d) (combine P qs) mf &&
  (* the closure's own formula (u - v, squared flag) gives the same exact number *)
  all2 qeqb (map (fun tp => @Src_query.metric_fun QOps L (nth 0 tp []) (nth 1 tp []) true) P) qs.


Definition c02_tol (d : nat) (L X : list (list Q)) (tr M : list (list (option Q))) : bool :=
  let trm := @Src_query.transform QOps L X in
  let tra := @Src_query.transform QOps (mabsQ L) (mabsQ X) in
  let Mm := @Src_query.get_mahalanobis_matrix QOps d L in
  let Ma := @Src_query.get_mahalanobis_matrix QOps d (mabsQ L) in
  all2 (fun ma row => all2 (fun p v => entry_ok tol_1e12 (fst p) (snd p) v) (combine (fst ma) (snd ma)) row)
       (combine trm tra) tr &&
  all2 (fun ma row => all2 (fun p v => entry_ok tol_1e12 (fst p) (snd p) v) (combine (fst ma) (snd ma)) row)
       (combine Mm Ma) M.

