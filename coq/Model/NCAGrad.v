(* The value and gradient that NCA hands to the optimiser (nca.py, _loss_grad_lbfgs), index by index:
     p_ij   = softmax_j(-|L x_i - L x_j|^2), p_ii = 0          (np.exp(-d - logsumexp(-d)), diagonal filled with inf)
     mp_ij  = p_ij * [y_i = y_j]                                 (masked_p_ij)
     p_i    = sum_j mp_ij,  loss = sum_i p_i
     W_ij   = mp_ij - p_ij p_i                                   (weighted_p_ij)
     S_ij   = W_ij + W_ji off the diagonal, S_jj = - sum_k W_kj  (weighted_p_ij_sym after np.fill_diagonal)
     grad   = 2 (X L^T)^T S X = 2 sum_ij S_ij (L x_i) x_j^T
   Generic in the carrier (R for the theorems, binary64 for the comparison with the code's own gradient). *)
From Coq Require Import List Arith Bool ZArith.
From ML Require Import Ops Vec NP LinAlg Objectives.
Import ListNotations.

Section G.
  Context {O : Ops}.
  Variable ex : T O -> T O.
  Notation t := (T O).
  Notation vec := (list t).
  Notation mat := (list (list t)).

  Definition isum (n : nat) (f : nat -> t) : t := vsum (map f (seq 0 n)).
  Definition pt (X : mat) (i : nat) : vec := nth i X [].
  Definition qd (L X : mat) (i j : nat) : t := sqd L (pt X i) (pt X j).
  Definition ee (L X : mat) (i j : nat) : t := if Nat.eqb j i then o0 O else ex (oopp O (qd L X i j)).
  Definition Zs (L X : mat) (i : nat) : t := isum (length X) (ee L X i).
  Definition pp (L X : mat) (i j : nat) : t := odiv O (ee L X i j) (Zs L X i).
  Definition same (y : list Z) (i j : nat) : bool := Z.eqb (nth j y 0%Z) (nth i y 0%Z).
  Definition mp (L X : mat) (y : list Z) (i j : nat) : t := if same y i j then pp L X i j else o0 O.
  Definition pin (L X : mat) (y : list Z) (i : nat) : t := isum (length X) (mp L X y i).
  Definition nca_loss (L X : mat) (y : list Z) : t := isum (length X) (pin L X y).
  Definition Wt (L X : mat) (y : list Z) (i j : nat) : t :=
    osub O (mp L X y i j) (omul O (pp L X i j) (pin L X y i)).
  Definition St (L X : mat) (y : list Z) (i j : nat) : t :=
    if Nat.eqb i j then oopp O (isum (length X) (fun k => Wt L X y k j))
    else oadd O (Wt L X y i j) (Wt L X y j i).
  Definition msum (k d n : nat) (f : nat -> mat) : mat :=
    fold_right (fun i acc => madd (f i) acc) (mzero k d) (seq 0 n).
  Definition nca_grad (k d : nat) (L X : mat) (y : list Z) : mat :=
    mscale (oofZ O 2)
      (msum k d (length X) (fun i =>
         msum k d (length X) (fun j => mscale (St L X y i j) (outer (mvmul L (pt X i)) (pt X j))))).

  (* MLKR (mlkr.py, _loss): softmax as above, yhat = softmax . y, cost = sum (yhat - y)^2,
     W_ij = softmax_ij (yhat_i - y_i)(y_j - yhat_i), W_sym = W + W^T with diagonal -colsum(W), grad = 4 (X A^T)^T W_sym X *)
  Definition yhat (L X : mat) (yv : vec) (i : nat) : t :=
    isum (length X) (fun j => omul O (pp L X i j) (nth j yv (o0 O))).
  Definition mlkr_loss (L X : mat) (yv : vec) : t :=
    isum (length X) (fun i => let r := osub O (yhat L X yv i) (nth i yv (o0 O)) in omul O r r).
  Definition Wm (L X : mat) (yv : vec) (i j : nat) : t :=
    omul O (omul O (pp L X i j) (osub O (yhat L X yv i) (nth i yv (o0 O))))
           (osub O (nth j yv (o0 O)) (yhat L X yv i)).
  Definition Sm (L X : mat) (yv : vec) (i j : nat) : t :=
    if Nat.eqb i j then oopp O (isum (length X) (fun k => Wm L X yv k j))
    else oadd O (Wm L X yv i j) (Wm L X yv j i).
  Definition mlkr_grad (k d : nat) (L X : mat) (yv : vec) : mat :=
    mscale (oofZ O 4)
      (msum k d (length X) (fun i =>
         msum k d (length X) (fun j => mscale (Sm L X yv i j) (outer (mvmul L (pt X i)) (pt X j))))).

  (* Frobenius inner product of two matrices given by rows *)
  Fixpoint frob (A B : mat) : t :=
    match A, B with r :: A', s :: B' => oadd O (vdot r s) (frob A' B') | _, _ => o0 O end.
End G.
