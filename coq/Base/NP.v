(* The NumPy idiom table: each combinator is the Gallina meaning that the
   translator (tools/translate) assigns to one recognised NumPy expression form.
   Generic over the carrier; validated against NumPy by the exact lane. *)
From Coq Require Import List ZArith Bool.
From ML Require Import Ops Vec.
Import ListNotations.

Section NP.
  Context {O : Ops}.
  Notation t := (T O).
  Notation vec := (list t).
  Notation mat := (list (list t)).
  Notation tup := (list (list (list t))).

  Fixpoint map2 {A B C} (f : A -> B -> C) (l1 : list A) (l2 : list B) : list C :=
    match l1, l2 with a :: l1', b :: l2' => f a b :: map2 f l1' l2' | _, _ => [] end.

  (* A.dot(B.T), A 2-D, B 2-D *)
  Definition np_dotT_mm (A B : mat) : mat := map (mvmul B) A.
  (* v.dot(B.T), v 1-D *)
  Definition np_dotT_vm (v : vec) (B : mat) : vec := mvmul B v.
  (* np.dot(a, b.T) with a, b 1-D (.T is the identity on 1-D arrays) *)
  Definition np_dot_vv (a b : vec) : t := vdot a b.
  (* A.T.dot(A) : sum over rows r of r r^T (d = number of columns) *)
  Definition np_gram (d : nat) (A : mat) : mat :=
    fold_right (fun r M => madd (outer r r) M) (mzero d d) A.
  (* elementwise *)
  Definition np_sub_mm (A B : mat) : mat := map2 vsub A B.
  Definition np_sub_vv (a b : vec) : vec := vsub a b.
  Definition np_sub_vv_elem (a b : vec) : vec := vsub a b.
  Definition np_sq_m (A : mat) : mat := map (map (fun a => omul O a a)) A.
  Definition np_sum_last_m (A : mat) : vec := map vsum A.
  Definition np_sqrt_v (v : vec) : vec := map (osqrt O) v.
  Definition np_sqrt_s (a : t) : t := osqrt O a.
  Definition np_neg_v (v : vec) : vec := map (oopp O) v.
  (* c * v with a Python integer literal c *)
  Definition np_zmul_v (c : Z) (v : vec) : vec := map (omul O (oofZ O c)) v.
  (* tuple slicing: T[:, i, :], T[:, :n], T[:, n:], T[:, [i, j]] *)
  Definition tup_col (i : nat) (T : tup) : mat := map (fun tp => nth i tp []) T.
  Definition tup_firstn (n : nat) (T : tup) : tup := map (firstn n) T.
  Definition tup_skipn (n : nat) (T : tup) : tup := map (skipn n) T.
  Definition tup_pick (idx : list nat) (T : tup) : tup :=
    map (fun tp => map (fun i => nth i tp []) idx) T.
  (* comparisons against a scalar, booleans to +-1, sign *)
  Definition np_le_vs (v : vec) (s : t) : list bool := map (fun a => oleb O a s) v.
  Definition np_gt_vs (v : vec) (s : t) : list bool := map (fun a => oltb O s a) v.
  Definition np_pm1 (bs : list bool) : list Z := map (fun b : bool => if b then 1%Z else (-1)%Z) bs.
  Definition np_sign_v (v : vec) : list Z :=
    map (fun a => if oltb O (o0 O) a then 1%Z else if oltb O a (o0 O) then (-1)%Z else 0%Z) v.
  (* zs.mean() / 2 + 0.5 for an integer array *)
  Definition zsum (zs : list Z) : Z := fold_right Z.add 0%Z zs.
  Definition np_mean_z (zs : list Z) : t :=
    odiv O (oofZ O (zsum zs)) (oofZ O (Z.of_nat (length zs))).
  Definition ohalf : t := odiv O (o1 O) (oofZ O 2).
End NP.
