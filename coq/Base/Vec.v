(* Vectors are lists, matrices lists of rows.  All recursion is structural. *)
From Coq Require Import List Arith Bool.
From ML Require Import Ops.
Import ListNotations.

Section Generic.
  Context (O : Ops).
  Notation t := (T O).

  Fixpoint vdot (u v : list t) : t :=
    match u, v with
    | a :: u', b :: v' => oadd O (omul O a b) (vdot u' v')
    | _, _ => o0 O
    end.
  Fixpoint vadd (u v : list t) : list t :=
    match u, v with
    | a :: u', b :: v' => oadd O a b :: vadd u' v'
    | _, _ => []
    end.
  Fixpoint vsub (u v : list t) : list t :=
    match u, v with
    | a :: u', b :: v' => osub O a b :: vsub u' v'
    | _, _ => []
    end.
  Fixpoint vscale (c : t) (u : list t) : list t :=
    match u with a :: u' => omul O c a :: vscale c u' | [] => [] end.
  Fixpoint vneg (u : list t) : list t :=
    match u with a :: u' => oopp O a :: vneg u' | [] => [] end.
  Fixpoint vsum (u : list t) : t :=
    match u with a :: u' => oadd O a (vsum u') | [] => o0 O end.
  Definition vsumsq (u : list t) : t := vdot u u.
  Fixpoint vzero (d : nat) : list t :=
    match d with 0%nat => [] | S d' => o0 O :: vzero d' end.

  (* matrices: list of rows *)
  Definition mvmul (A : list (list t)) (x : list t) : list t := map (fun r => vdot r x) A.
  Definition quadform (A : list (list t)) (x : list t) : t := vdot x (mvmul A x).
  Fixpoint madd (A B : list (list t)) : list (list t) :=
    match A, B with r :: A', s :: B' => vadd r s :: madd A' B' | _, _ => [] end.
  Definition mscale (c : t) (A : list (list t)) := map (vscale c) A.
  Definition mzero (k d : nat) : list (list t) := repeat (vzero d) k.
  Definition outer (u v : list t) : list (list t) := map (fun a => vscale a v) u.
  (* columns of a matrix with [d] columns *)
  Fixpoint col (j : nat) (A : list (list t)) : list t :=
    match A with r :: A' => nth j r (o0 O) :: col j A' | [] => [] end.
  Definition mtrans (d : nat) (A : list (list t)) : list (list t) :=
    map (fun j => col j A) (seq 0 d).
  (* A (k x d) times B given by its rows (d x m) *)
  Definition mmul (m : nat) (A B : list (list t)) : list (list t) :=
    map (fun r => mvmul (mtrans m B) r) A.
  (* unit vector / identity *)
  Fixpoint unitv (d i : nat) : list t :=
    match d with
    | 0%nat => []
    | S d' => match i with 0%nat => o1 O :: vzero d' | S i' => o0 O :: unitv d' i' end
    end.
  Definition mident (d : nat) : list (list t) := map (unitv d) (seq 0 d).
  Fixpoint diagv (d : nat) (i : nat) (x : t) : list t :=
    match d with
    | 0%nat => []
    | S d' => match i with 0%nat => x :: vzero d' | S i' => o0 O :: diagv d' i' x end
    end.

  Definition wfvb (d : nat) (x : list t) : bool := Nat.eqb (length x) d.
  Definition wfmb (k d : nat) (A : list (list t)) : bool :=
    Nat.eqb (length A) k && forallb (wfvb d) A.
End Generic.

Arguments vdot {O} _ _.
Arguments vadd {O} _ _.
Arguments vsub {O} _ _.
Arguments vscale {O} _ _.
Arguments vneg {O} _.
Arguments vsum {O} _.
Arguments vsumsq {O} _.
Arguments vzero {O} _.
Arguments mvmul {O} _ _.
Arguments quadform {O} _ _.
Arguments madd {O} _ _.
Arguments mscale {O} _ _.
Arguments outer {O} _ _.
Arguments mzero {O} _ _.
Arguments col {O} _ _.
Arguments mtrans {O} _ _.
Arguments mmul {O} _ _ _.
Arguments unitv {O} _ _.
Arguments mident {O} _.
Arguments diagv {O} _ _ _.
Arguments wfvb {O} _ _.
Arguments wfmb {O} _ _ _.

Definition wfv {O : Ops} (d : nat) (x : list (T O)) : Prop := length x = d.
Definition wfm {O : Ops} (k d : nat) (A : list (list (T O))) : Prop :=
  length A = k /\ Forall (wfv d) A.

Lemma wfvb_iff {O : Ops} d (x : list (T O)) : wfvb d x = true <-> wfv d x.
Proof. unfold wfvb, wfv. apply Nat.eqb_eq. Qed.
Lemma wfmb_iff {O : Ops} k d (A : list (list (T O))) : wfmb k d A = true <-> wfm k d A.
Proof.
  unfold wfmb, wfm. rewrite andb_true_iff, Nat.eqb_eq, forallb_forall, Forall_forall.
  split; intros [H1 H2]; split; auto; intros x Hx; apply wfvb_iff; auto.
Qed.
