(* Generic (any carrier) dense linear algebra on lists, used by the executable models and the
   certificate checkers: transpose, product, LDL^T pivots, Gauss-Jordan inverse, covariance. *)
From Coq Require Import List Arith Bool ZArith.
From ML Require Import Ops Vec NP.
Import ListNotations.

Section LA.
  Context {O : Ops}.
  Notation t := (T O).
  Notation vec := (list t).
  Notation mat := (list (list t)).

  Definition hd0 (v : vec) : t := match v with a :: _ => a | [] => o0 O end.

  (* transpose of a matrix given by rows ([] when there are no columns left) *)
  Fixpoint transp_fuel (fuel : nat) (A : mat) : mat :=
    match fuel with
    | 0%nat => []
    | S f => match A with
             | [] => []
             | [] :: _ => []
             | _ => map hd0 A :: transp_fuel f (map (@tl t) A)
             end
    end.
  Definition transp (A : mat) : mat := transp_fuel (match A with r :: _ => length r | [] => 0%nat end) A.

  (* A * B (rows of A times columns of B) *)
  Definition mmulg (A B : mat) : mat := let Bt := transp B in map (fun r => map (vdot r) Bt) A.
  Definition msub (A B : mat) : mat := map2 vsub A B.
  Definition mtrace (A : mat) : t := vsum (map (fun i => nth i (nth i A []) (o0 O)) (seq 0 (length A))).
  Definition mdiag_of (A : mat) : vec := map (fun i => nth i (nth i A []) (o0 O)) (seq 0 (length A)).
  Definition mentry (A : mat) (i j : nat) : t := nth j (nth i A []) (o0 O).
  Definition mfrob2 (A : mat) : t := vsum (map vsumsq A).
  Definition msym (A : mat) : mat := (* (A + A^T) / 2 *)
    map2 (fun r s => map2 (fun a b => odiv O (oadd O a b) (oofZ O 2)) r s) A (transp A).
  (* sum_k w_k * b_k b_k^T *)
  Definition wgram (d : nat) (w : vec) (B : mat) : mat :=
    fold_right (fun wb M => madd (mscale (fst wb) (outer (snd wb) (snd wb))) M) (mzero d d) (combine w B).
  Definition add_eps_diag (eps : t) (A : mat) : mat :=
    map (fun ir => map (fun ja => if Nat.eqb (fst ir) (fst ja) then oadd O (snd ja) eps else snd ja)
                       (combine (seq 0 (length (snd ir))) (snd ir)))
        (combine (seq 0 (length A)) A).

  (* pivots of the LDL^T factorisation by successive Schur complements; None as soon as a pivot
     is not strictly positive (so Some _ certifies positive definiteness of a symmetric matrix) *)
  Fixpoint ldl_fuel (fuel : nat) (M : mat) : option (list (vec * t)) :=
    match fuel with
    | 0%nat => match M with [] => Some [] | _ => None end
    | S f =>
        match M with
        | [] => Some []
        | r :: rest =>
            let d := hd0 r in
            if oltb O (o0 O) d then
              let u := map (fun a => odiv O a d) r in
              let S := map (fun ri => vsub (tl ri) (vscale (hd0 ri) (tl u))) rest in
              match ldl_fuel f S with
              | Some l => Some ((u, d) :: l)
              | None => None
              end
            else None
        end
    end.
  Definition ldl (M : mat) : option (list (vec * t)) := ldl_fuel (S (length M)) M.
  Definition is_pd (M : mat) : bool := match ldl M with Some _ => true | None => false end.

  (* Gauss-Jordan inverse without pivoting search beyond the first non-zero entry *)
  Definition is_zero (a : t) : bool := oleb O a (o0 O) && oleb O (o0 O) a.
  Fixpoint find_pivot (col : nat) (rows : list (vec * vec)) : option ((vec * vec) * list (vec * vec)) :=
    match rows with
    | [] => None
    | r :: rest =>
        if is_zero (nth col (fst r) (o0 O)) then
          match find_pivot col rest with
          | Some (p, others) => Some (p, r :: others)
          | None => None
          end
        else Some (r, rest)
    end.
  Definition row_comb (c : t) (p r : vec * vec) : vec * vec :=
    (vsub (fst r) (vscale c (fst p)), vsub (snd r) (vscale c (snd p))).
  Fixpoint gj (fuel col : nat) (done todo : list (vec * vec)) : option (list (vec * vec)) :=
    match fuel with
    | 0%nat => match todo with [] => Some done | _ => None end
    | S f =>
        match todo with
        | [] => Some done
        | _ =>
            match find_pivot col todo with
            | None => None
            | Some (p, others) =>
                let piv := nth col (fst p) (o0 O) in
                let pn := (map (fun a => odiv O a piv) (fst p), map (fun a => odiv O a piv) (snd p)) in
                let elim := fun r => row_comb (nth col (fst r) (o0 O)) pn r in
                gj f (S col) (map elim done ++ [pn]) (map elim others)
            end
        end
    end.
  Definition minv (A : mat) : option mat :=
    let n := length A in
    match gj (S n) 0 [] (combine A (mident n)) with
    | Some rows => Some (map snd rows)
    | None => None
    end.

  (* sample covariance with divisor (n - ddof) *)
  Definition colmeans (X : mat) : vec :=
    let n := oofZ O (Z.of_nat (length X)) in map (fun c => odiv O (vsum c) n) (transp X).
  Definition center (X : mat) : mat := let m := colmeans X in map (fun r => vsub r m) X.
  Definition cov (ddof : nat) (X : mat) : mat :=
    let Xc := center X in
    let n := oofZ O (Z.of_nat (length X - ddof)) in
    map (map (fun a => odiv O a n)) (mmulg (transp Xc) Xc).
End LA.
