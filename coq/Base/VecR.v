(* Real-number facts about the generic vector/matrix combinators. *)
From Coq Require Import List Arith Reals Lra Psatz Lia.
From ML Require Import Ops Vec.
Import ListNotations.
Open Scope R_scope.

Notation Rv := (list R).
Notation Rm := (list (list R)).
Notation vdotR := (@vdot ROps).
Notation vaddR := (@vadd ROps).
Notation vsubR := (@vsub ROps).
Notation vscaleR := (@vscale ROps).
Notation vnegR := (@vneg ROps).
Notation vsumsqR := (@vsumsq ROps).
Notation mvmulR := (@mvmul ROps).
Notation quadformR := (@quadform ROps).
Notation wfvR := (@wfv ROps).
Notation wfmR := (@wfm ROps).

Ltac rsimp := change (T ROps) with R in *.
Ltac rcong := unfold wfv in *; rsimp; (congruence || lia).

Lemma vdot_comm (u : Rv) : forall v, vdotR u v = vdotR v u.
Proof. induction u as [|a u IH]; intros [|b v]; cbn; auto. rewrite IH; ring. Qed.

Lemma vadd_length (u : Rv) : forall v, length u = length v -> length (vaddR u v) = length u.
Proof. induction u; intros [|b v] H; cbn in *; auto; try discriminate. Qed.
Lemma vsub_length (u : Rv) : forall v, length u = length v -> length (vsubR u v) = length u.
Proof. induction u; intros [|b v] H; cbn in *; auto; try discriminate. Qed.
Lemma vscale_length c (u : Rv) : length (vscaleR c u) = length u.
Proof. induction u; cbn; auto. Qed.
Lemma vneg_length (u : Rv) : length (vnegR u) = length u.
Proof. induction u; cbn; auto. Qed.
Lemma mvmul_length (A : Rm) x : length (mvmulR A x) = length A.
Proof. apply map_length. Qed.
Lemma vzero_length d : length (@vzero ROps d) = d.
Proof. induction d; cbn; auto. Qed.

Lemma vdot_vadd_r (u : Rv) : forall v w, length v = length w ->
  vdotR u (vaddR v w) = vdotR u v + vdotR u w.
Proof. induction u as [|a u IH]; intros [|b v] [|c w] H; cbn in *; try lra; try discriminate.
  rewrite IH by lia. ring. Qed.
Lemma vdot_vsub_r (u : Rv) : forall v w, length v = length w ->
  vdotR u (vsubR v w) = vdotR u v - vdotR u w.
Proof. induction u as [|a u IH]; intros [|b v] [|c w] H; cbn in *; try lra; try discriminate.
  rewrite IH by lia. ring. Qed.
Lemma vdot_vscale_r c (u : Rv) : forall v, vdotR u (vscaleR c v) = c * vdotR u v.
Proof. induction u as [|a u IH]; intros [|b v]; cbn; try lra. rewrite IH. ring. Qed.
Lemma vdot_vneg_r (u : Rv) : forall v, vdotR u (vnegR v) = - vdotR u v.
Proof. induction u as [|a u IH]; intros [|b v]; cbn; try lra. rewrite IH. ring. Qed.
Lemma vdot_vadd_l (u : Rv) v w : length u = length v ->
  vdotR (vaddR u v) w = vdotR u w + vdotR v w.
Proof. intros. rewrite vdot_comm, vdot_vadd_r by auto. rewrite (vdot_comm w u), (vdot_comm w v). rsimp; ring. Qed.
Lemma vdot_vsub_l (u : Rv) v w : length u = length v ->
  vdotR (vsubR u v) w = vdotR u w - vdotR v w.
Proof. intros. rewrite vdot_comm, vdot_vsub_r by auto. rewrite (vdot_comm w u), (vdot_comm w v). rsimp; ring. Qed.
Lemma vdot_vscale_l c (u v : Rv) : vdotR (vscaleR c u) v = c * vdotR u v.
Proof. rewrite vdot_comm, vdot_vscale_r, vdot_comm. rsimp; ring. Qed.
Lemma vdot_vneg_l (u v : Rv) : vdotR (vnegR u) v = - vdotR u v.
Proof. rewrite vdot_comm, vdot_vneg_r, vdot_comm. rsimp; ring. Qed.
Lemma vdot_vzero_r (u : Rv) d : vdotR u (vzero d) = 0.
Proof. revert d; induction u as [|a u IH]; intros [|d]; cbn; auto. rewrite IH. ring. Qed.

Lemma vsumsq_nonneg (u : Rv) : 0 <= vsumsqR u.
Proof. unfold vsumsq. induction u as [|a u IH]; cbn in *; nra. Qed.
Lemma vsumsq_vneg (u : Rv) : vsumsqR (vnegR u) = vsumsqR u.
Proof. unfold vsumsq. rewrite vdot_vneg_l, vdot_vneg_r. rsimp; ring. Qed.
Lemma vsumsq_vzero d : vsumsqR (vzero d) = 0.
Proof. unfold vsumsq. apply vdot_vzero_r. Qed.
Lemma vsumsq_zero_all (u : Rv) : vsumsqR u = 0 -> Forall (fun a => a = 0) u.
Proof. unfold vsumsq. induction u as [|a u IH]; cbn; intro H; constructor.
  - pose proof (vsumsq_nonneg u) as P. unfold vsumsq in P. nra.
  - apply IH. pose proof (vsumsq_nonneg u) as P. unfold vsumsq in P. nra. Qed.

Lemma vsub_self (x : Rv) : vsubR x x = vzero (length x).
Proof. induction x as [|a x IH]; cbn; auto. rewrite IH. f_equal. ring. Qed.
Lemma vsub_anti (x : Rv) : forall y, vsubR y x = vnegR (vsubR x y).
Proof. induction x as [|a x IH]; intros [|b y]; cbn; auto. rewrite IH. f_equal. ring. Qed.
Lemma vsub_chain (x : Rv) : forall y z, length x = length y -> length y = length z ->
  vsubR z x = vaddR (vsubR y x) (vsubR z y).
Proof. induction x as [|a x IH]; intros [|b y] [|c z] H1 H2; cbn in *; auto; try discriminate.
  f_equal; [ring | apply IH; lia]. Qed.
Lemma vsub_vadd_shift (t x : Rv) : forall y, length t = length x -> length x = length y ->
  vsubR (vaddR y t) (vaddR x t) = vsubR y x.
Proof. revert x; induction t as [|c t IH]; intros [|a x] [|b y] H1 H2; cbn in *; auto; try discriminate.
  f_equal; [ring | apply IH; lia]. Qed.

(* Cauchy-Schwarz and Minkowski *)
Lemma cauchy_schwarz : forall u v : Rv, (vdotR u v)^2 <= vsumsqR u * vsumsqR v.
Proof.
  unfold vsumsq.
  induction u as [|a u IH]; intros [|b v]; cbn.
  - nra. - nra.
  - pose proof (vsumsq_nonneg u) as P; unfold vsumsq in P. cbn in *. nra.
  - specialize (IH v).
    pose proof (vsumsq_nonneg u) as Hu. pose proof (vsumsq_nonneg v) as Hv. unfold vsumsq in *.
    cbn in *.
    set (s := vdotR u v) in *. set (p := vdotR u u) in *. set (q := vdotR v v) in *.
    clearbody s p q.
    assert (H2: 2*a*b*s <= a*a*q + b*b*p).
    { assert (0 <= a*a*q+b*b*p) by nra.
      destruct (Rle_dec 0 (a*b*s)).
      - assert (Hk: (a*b)^2 * s^2 <= (a*b)^2 * (p*q)) by (apply Rmult_le_compat_l; [apply pow2_ge_0 | exact IH]).
        pose proof (pow2_ge_0 (a*a*q - b*b*p)).
        assert ((2*a*b*s)^2 <= (a*a*q+b*b*p)^2) by nra. nra.
      - nra. }
    nra.
Qed.

Lemma minkowski (u v : Rv) : length u = length v ->
  sqrt (vsumsqR (vaddR u v)) <= sqrt (vsumsqR u) + sqrt (vsumsqR v).
Proof.
  intro H.
  pose proof (vsumsq_nonneg u) as Pu. pose proof (vsumsq_nonneg v) as Pv.
  pose proof (vsumsq_nonneg (vaddR u v)) as Puv.
  pose proof (cauchy_schwarz u v) as CS.
  assert (E: vsumsqR (vaddR u v) = vsumsqR u + 2 * vdotR u v + vsumsqR v).
  { unfold vsumsq. rewrite vdot_vadd_l, !vdot_vadd_r by auto. rewrite (vdot_comm v u). rsimp; ring. }
  set (p := vsumsqR u) in *. set (q := vsumsqR v) in *. set (s := vdotR u v) in *.
  clearbody p q s.
  pose proof (sqrt_pos p) as Sp. pose proof (sqrt_pos q) as Sq.
  pose proof (sqrt_sqrt p Pu) as Ep. pose proof (sqrt_sqrt q Pv) as Eq.
  apply Rsqr_incr_0_var; [|lra].
  unfold Rsqr. rewrite sqrt_sqrt by lra. rewrite E.
  assert (s <= sqrt p * sqrt q).
  { destruct (Rle_dec s 0). { nra. }
    apply Rsqr_incr_0_var; [|nra]. unfold Rsqr.
    replace (sqrt p * sqrt q * (sqrt p * sqrt q)) with ((sqrt p * sqrt p) * (sqrt q * sqrt q)) by ring.
    rewrite Ep, Eq. nra. }
  nra.
Qed.

(* matrices acting on vectors *)
Lemma mvmul_vadd (A : Rm) : forall x y, length x = length y ->
  mvmulR A (vaddR x y) = vaddR (mvmulR A x) (mvmulR A y).
Proof. induction A as [|r A IH]; intros; cbn; auto. f_equal; [apply vdot_vadd_r; auto | apply IH; auto]. Qed.
Lemma mvmul_vsub (A : Rm) : forall x y, length x = length y ->
  mvmulR A (vsubR x y) = vsubR (mvmulR A x) (mvmulR A y).
Proof. induction A as [|r A IH]; intros; cbn; auto. f_equal; [apply vdot_vsub_r; auto | apply IH; auto]. Qed.
Lemma mvmul_vscale (A : Rm) c x : mvmulR A (vscaleR c x) = vscaleR c (mvmulR A x).
Proof. induction A as [|r A IH]; cbn; auto. f_equal; [apply vdot_vscale_r | apply IH]. Qed.
Lemma mvmul_vneg (A : Rm) x : mvmulR A (vnegR x) = vnegR (mvmulR A x).
Proof. induction A as [|r A IH]; cbn; auto. f_equal; [apply vdot_vneg_r | apply IH]. Qed.
Lemma mvmul_vzero (A : Rm) d : mvmulR A (vzero d) = vzero (length A).
Proof. induction A as [|r A IH]; cbn; auto. f_equal; [apply vdot_vzero_r | apply IH]. Qed.
