(* Carrier record: every executable model is written once over [Ops] and
   instantiated with R (theorems), Q (exact lane) and PrimFloat (float lane). *)
From Coq Require Import List ZArith QArith Qreduction Reals.
From Coq Require PrimFloat.
Import ListNotations.

Record Ops := mkOps {
  T : Type;
  o0 : T; o1 : T;
  oadd : T -> T -> T; osub : T -> T -> T; omul : T -> T -> T; odiv : T -> T -> T;
  oopp : T -> T; osqrt : T -> T;
  oleb : T -> T -> bool; oltb : T -> T -> bool;
  oofZ : Z -> T
}.

Definition omax (O : Ops) (a b : T O) : T O := if oleb O a b then b else a.
Definition omin (O : Ops) (a b : T O) : T O := if oleb O a b then a else b.
Definition oabs (O : Ops) (a : T O) : T O := if oleb O (o0 O) a then a else oopp O a.
Definition oeqb (O : Ops) (a b : T O) : bool := andb (oleb O a b) (oleb O b a).

(* ---- R ---- *)
Definition Rleb (x y : R) : bool := if Rle_dec x y then true else false.
Definition Rltb (x y : R) : bool := if Rlt_dec x y then true else false.
Definition ROps : Ops := {|
  T := R; o0 := 0%R; o1 := 1%R;
  oadd := Rplus; osub := Rminus; omul := Rmult; odiv := Rdiv;
  oopp := Ropp; osqrt := sqrt; oleb := Rleb; oltb := Rltb; oofZ := IZR |}.

Lemma Rleb_true x y : Rleb x y = true <-> (x <= y)%R.
Proof. unfold Rleb; destruct (Rle_dec x y); split; intro; auto; try discriminate; contradiction. Qed.
Lemma Rleb_false x y : Rleb x y = false <-> (y < x)%R.
Proof. unfold Rleb; destruct (Rle_dec x y) as [r|n]; split; intro H; auto; try discriminate.
  - exfalso. apply (Rlt_irrefl x). eapply Rle_lt_trans; eauto.
  - apply Rnot_le_lt; auto. Qed.
Lemma Rltb_true x y : Rltb x y = true <-> (x < y)%R.
Proof. unfold Rltb; destruct (Rlt_dec x y); split; intro; auto; try discriminate; contradiction. Qed.
Lemma Rltb_false x y : Rltb x y = false <-> (y <= x)%R.
Proof. unfold Rltb; destruct (Rlt_dec x y) as [r|n]; split; intro H; auto; try discriminate.
  - exfalso. apply (Rlt_irrefl x). eapply Rlt_le_trans; eauto.
  - apply Rnot_lt_le; auto. Qed.

(* ---- Q (kept reduced) ---- *)
Definition QOps : Ops := {|
  T := Q; o0 := 0%Q; o1 := 1%Q;
  oadd := fun a b => Qred (a + b); osub := fun a b => Qred (a - b);
  omul := fun a b => Qred (a * b); odiv := fun a b => Qred (a / b);
  oopp := Qopp;
  osqrt := fun a => a;  (* the exact lane never takes square roots: see DESIGN 2.1 *)
  oleb := Qle_bool; oltb := fun a b => negb (Qle_bool b a); oofZ := inject_Z |}.

(* ---- binary64 ---- *)
Definition float_of_pos (p : positive) : PrimFloat.float :=
  Pos.iter_op PrimFloat.add p PrimFloat.one.
Definition float_of_Z (z : Z) : PrimFloat.float :=
  match z with
  | Z0 => PrimFloat.zero
  | Zpos p => float_of_pos p
  | Zneg p => PrimFloat.opp (float_of_pos p)
  end.
Definition FOps : Ops := {|
  T := PrimFloat.float; o0 := PrimFloat.zero; o1 := PrimFloat.one;
  oadd := PrimFloat.add; osub := PrimFloat.sub; omul := PrimFloat.mul; odiv := PrimFloat.div;
  oopp := PrimFloat.opp; osqrt := PrimFloat.sqrt;
  oleb := PrimFloat.leb; oltb := PrimFloat.ltb; oofZ := float_of_Z |}.
