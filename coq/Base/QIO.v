(* Exact-rational helpers for case files: dyadic literals, tolerance tests. *)
From Coq Require Import List ZArith QArith Qreduction Bool.
From ML Require Import Ops Vec.
Import ListNotations.

(* n * 2^e *)
Definition dy (n e : Z) : Q :=
  match e with
  | Z0 => n # 1
  | Zpos p => (n * Z.pow_pos 2 p) # 1
  | Zneg p => Qred (n # (Pos.pow 2 p))
  end.

Definition qabs (a : Q) : Q := if Qle_bool 0 a then a else Qopp a.
Definition qleb := Qle_bool.
Definition qltb (a b : Q) := negb (Qle_bool b a).
Definition qeqb (a b : Q) := Qeq_bool a b.

(* |a - b| <= tol *)
Definition qwithin (a b tol : Q) : bool := Qle_bool (qabs (Qred (a - b))) tol.
(* |a - b| <= rtol * max(|a|,|b|) + atol *)
Definition qclose (rtol atol a b : Q) : bool :=
  let m := if Qle_bool (qabs a) (qabs b) then qabs b else qabs a in
  Qle_bool (qabs (Qred (a - b))) (Qred (rtol * m + atol)).

Definition vabsQ (v : list Q) : list Q := map qabs v.
Definition mabsQ (A : list (list Q)) : list (list Q) := map vabsQ A.

Fixpoint all2 {A B} (f : A -> B -> bool) (l1 : list A) (l2 : list B) : bool :=
  match l1, l2 with
  | [], [] => true
  | a :: l1', b :: l2' => f a b && all2 f l1' l2'
  | _, _ => false
  end.

Definition tol_1e9 : Q := 1 # 1000000000.
Definition tol_1e12 : Q := 1 # 1000000000000.
Definition tol_1e6 : Q := 1 # 1000000.
