(* binary64 helpers for case files: bit-level equality up to the sign of zero / NaN payload. *)
From Coq Require Import List ZArith Bool.
From Coq Require PrimFloat.
From ML Require Import Ops Vec QIO.
Import ListNotations.

Definition fis_nan (x : PrimFloat.float) : bool := negb (PrimFloat.eqb x x).
(* equal as IEEE values (NaN = NaN here; +0 = -0) *)
Definition feq (a b : PrimFloat.float) : bool :=
  PrimFloat.eqb a b || (fis_nan a && fis_nan b).
Definition fveq := all2 feq.
Definition fmeq := all2 fveq.
Definition ffinite (x : PrimFloat.float) : bool :=
  PrimFloat.ltb (PrimFloat.abs x) PrimFloat.infinity.
Definition zveq (a b : list Z) : bool := all2 Z.eqb a b.
