(* exp on binary64 by argument scaling and a Taylor polynomial: exp x = (exp (x / 2^12))^(2^12).
   Accuracy about 1e-12 relative for |x| <= 700 (validated against numpy on every run of C10);
   used only on the correspondence side, never in a theorem. *)
From Coq Require Import List ZArith.
From Coq Require PrimFloat.
From ML Require Import Ops.

Definition fl := PrimFloat.float.
Definition fofZ := float_of_Z.
Fixpoint taylor (n : nat) (k : Z) (y term acc : fl) : fl :=
  match n with
  | O => acc
  | S n' => let term' := PrimFloat.div (PrimFloat.mul term y) (fofZ k) in
            taylor n' (k + 1)%Z y term' (PrimFloat.add acc term')
  end.
Fixpoint sq_iter (n : nat) (a : fl) : fl :=
  match n with O => a | S n' => sq_iter n' (PrimFloat.mul a a) end.
Definition fexp (x : fl) : fl :=
  if PrimFloat.ltb x (fofZ (-745)) then PrimFloat.zero
  else let y := PrimFloat.div x (fofZ 4096) in
       sq_iter 12 (taylor 14 1%Z y PrimFloat.one PrimFloat.one).
