(* Idiom table for the numeric statements of the solver loops (tools/pynum.py emits these names).
   One definition per NumPy / Python form, generic in the carrier.  S = scalar, V = 1-D array,
   M = 2-D array (rows), SX = scalar that may be +inf (None). *)
From Coq Require Import List ZArith Bool.
From ML Require Import Ops Vec NP LinAlg.
Import ListNotations.

Section NPNum.
  Context {O : Ops}.
  Notation t := (T O).
  Notation vec := (list t).
  Notation mat := (list (list t)).

  (* literals: the decimal numeral of the source as an exact quotient of integers *)
  Definition olit (n d : Z) : t := odiv O (oofZ O n) (oofZ O d).
  Definition oint (n : Z) : t := oofZ O n.

  (* a.dot(b) by the types of a and b *)
  Definition nn_dot_vv (a b : vec) : t := vdot a b.
  Definition nn_dot_mv (A : mat) (v : vec) : vec := mvmul A v.
  Definition nn_dot_vm (v : vec) (A : mat) : vec := mvmul (transp A) v.          (* v^T A *)
  Definition nn_dot_mm (A B : mat) : mat := mmulg A B.
  Definition nn_outer (a b : vec) : mat := outer a b.
  (* arithmetic with broadcasting of a scalar *)
  Definition nn_mul_vs (v : vec) (s : t) : vec := vscale s v.
  Definition nn_mul_sv (s : t) (v : vec) : vec := vscale s v.
  Definition nn_mul_sm (s : t) (A : mat) : mat := mscale s A.
  Definition nn_mul_ms (A : mat) (s : t) : mat := mscale s A.
  Definition nn_mul_vv (a b : vec) : vec := map2 (omul O) a b.                     (* elementwise *)
  Definition nn_mul_mm (A B : mat) : mat := map2 (map2 (omul O)) A B.              (* elementwise *)
  Definition nn_add_vv (a b : vec) : vec := vadd a b.
  Definition nn_sub_vv (a b : vec) : vec := vsub a b.
  Definition nn_add_mm (A B : mat) : mat := madd A B.
  Definition nn_sub_mm (A B : mat) : mat := map2 vsub A B.
  Definition nn_add_vs (v : vec) (s : t) : vec := map (fun a => oadd O a s) v.
  Definition nn_add_sv (s : t) (v : vec) : vec := map (fun a => oadd O s a) v.
  Definition nn_div_vs (v : vec) (s : t) : vec := map (fun a => odiv O a s) v.
  Definition nn_div_sv (s : t) (v : vec) : vec := map (fun a => odiv O s a) v.
  Definition nn_div_vv (a b : vec) : vec := map2 (odiv O) a b.
  Definition nn_neg_v (v : vec) : vec := map (oopp O) v.
  (* division by a scalar that may be +inf (x / inf = 0) *)
  Definition nn_div_sx (a : t) (g : option t) : t := match g with None => o0 O | Some gm => odiv O a gm end.
  (* elementwise functions and reductions *)
  Definition nn_abs_v (v : vec) : vec := map (oabs O) v.
  Definition nn_sqrt_v (v : vec) : vec := map (osqrt O) v.
  Definition nn_square_v (v : vec) : vec := map (fun a => omul O a a) v.
  Definition nn_sum_v (v : vec) : t := vsum v.
  Definition nn_sum_m (A : mat) : t := vsum (map vsum A).
  Definition nn_sum_rows (A : mat) : vec := map vsum A.                            (* np.sum(A, axis=1) *)
  Definition nn_norm_v (v : vec) : t := osqrt O (vsumsq v).                        (* np.linalg.norm of a 1-D array *)
  Definition nn_norm_m (A : mat) : t := osqrt O (vsum (map vsumsq A)).             (* Frobenius *)
  Definition nn_minimum_vs (v : vec) (s : t) : vec := map (fun a => omin O a s) v.
  Definition nn_maximum_vs (v : vec) (s : t) : vec := map (fun a => omax O a s) v.
  Definition nn_gt_vv (a b : vec) : list bool := map2 (fun x y => oltb O y x) a b.
  Definition nn_gt_vs (a : vec) (s : t) : list bool := map (fun x => oltb O s x) a.
  (* boolean-mask selection a[mask] *)
  Fixpoint nn_mask {A} (m : list bool) (l : list A) : list A :=
    match m, l with
    | b :: m', x :: l' => if b then x :: nn_mask m' l' else nn_mask m' l'
    | _, _ => []
    end.
  Definition nn_zeros (n : nat) : vec := repeat (o0 O) n.
  (* integers used in float arithmetic; row gathering D[idx, :]; column sums of a matrix with n columns (zeros for no rows) *)
  Definition ofnat (n : nat) : t := oofZ O (Z.of_nat n).
  Definition nn_take_rows (idx : list nat) (D : mat) : mat := map (fun i => nth i D []) idx.
  Definition nn_sum_cols (n : nat) (A : mat) : vec := fold_right vadd (vzero n) A.
  (* A.ravel() (row-major) and np.einsum('ij,ik->jk', X, Y) = sum_i outer(X_i, Y_i) (a d x d matrix; zeros for no rows) *)
  Definition nn_ravel (A : mat) : vec := concat A.
  Definition nn_einsum_ij_ik_jk (d : nat) (X Y : mat) : mat :=
    fold_right (fun xy acc => madd (outer (fst xy) (snd xy)) acc) (mzero d d) (combine X Y).
  (* (X.T * y): row i of X scaled by y_i (kept untransposed);  A.T.dot(B) *)
  Definition nn_scale_rows (y : vec) (X : mat) : mat := map2 vscale y X.
  Definition nn_dot_tm (A B : mat) : mat := mmulg (transp A) B.
  (* A.dot(B.T): entry (a, i) = row a of A . row i of B *)
  Definition nn_dot_mt (A B : mat) : mat := map (fun r => map (vdot r) B) A.
  (* w < s elementwise, any(...), and the maximum of a non-negative 1-D array (np.abs(w).max()) *)
  Definition nn_lt_vs (v : vec) (s : t) : list bool := map (fun a => oltb O a s) v.
  Definition nn_le_vs (v : vec) (s : t) : list bool := map (fun a => oleb O a s) v.
  Definition nn_any (bs : list bool) : bool := existsb (fun b => b) bs.
  Definition nn_max_v (v : vec) : t := fold_right (fun a m => omax O a m) (o0 O) v.
  (* ---- index-tabulated idioms (NCA / MLKR): entry (i, j) of an n x m array given as a function of the indices ---- *)
  Definition nn_entry (A : mat) (i j : nat) : t := nth j (nth i A []) (o0 O).
  Definition nn_tab (n m : nat) (f : nat -> nat -> t) : mat := map (fun i => map (fun j => f i j) (seq 0 m)) (seq 0 n).
  (* sklearn pairwise_distances(E, squared=True) *)
  Definition nn_pairwise_sq (E : mat) : mat :=
    nn_tab (length E) (length E) (fun i j => vsumsq (vsub (nth i E []) (nth j E []))).
  (* np.fill_diagonal(D, inf); np.exp(-D - logsumexp(-D, axis=1)[:, None]): the softmax of the negated entries of each row with
     the diagonal excluded (exp(-inf) = 0); the stabilised form exp(a - log sum exp) = exp(a) / sum exp is C10's first clause *)
  Definition nn_softmax_neg_offdiag (ex : t -> t) (D : mat) : mat :=
    let n := length D in
    let e := fun i j => if Nat.eqb j i then o0 O else ex (oopp O (nn_entry D i j)) in
    nn_tab n n (fun i j => odiv O (e i j) (vsum (map (e i) (seq 0 n)))).
  (* P * mask for a boolean array mask *)
  Definition nn_mulmask (P : mat) (mask : list (list bool)) : mat :=
    nn_tab (length P) (length P) (fun i j => if nth j (nth i mask []) false then nn_entry P i j else o0 O).
  (* W + W.T, and np.fill_diagonal(S, v) *)
  Definition nn_add_m_mt (W : mat) : mat := nn_tab (length W) (length W) (fun i j => oadd O (nn_entry W i j) (nn_entry W j i)).
  Definition nn_fill_diag (S : mat) (v : vec) : mat :=
    nn_tab (length S) (length S) (fun i j => if Nat.eqb i j then nth i v (o0 O) else nn_entry S i j).
  (* (y - yhat[:, np.newaxis]): entry (i, j) = y_j - yhat_i *)
  Definition nn_row_minus_col (y yhat : vec) : mat :=
    nn_tab (length yhat) (length y) (fun i j => osub O (nth j y (o0 O)) (nth i yhat (o0 O))).
  (* integer label arrays: (labels == c), (labels != c), labels.max(), range(n) *)
  Definition nn_eq_zs (l : list Z) (c : Z) : list bool := map (fun a => Z.eqb a c) l.
  Definition nn_ne_zs (l : list Z) (c : Z) : list bool := map (fun a => negb (Z.eqb a c)) l.
  Definition nn_max_z (l : list Z) : Z := fold_right Z.max (hd 0%Z l) l.
  Definition nn_zrange (n : Z) : list Z := map Z.of_nat (seq 0 (Z.to_nat n)).
  (* A.mean(axis=0) and the in-place A[mask] -= v (v broadcast over the selected rows) *)
  Definition nn_mean_rows (A : mat) : vec := colmeans A.
  Fixpoint nn_isub_rows_where (mask : list bool) (A : mat) (v : vec) : mat :=
    match mask, A with
    | b :: mk, r :: A' => (if b then vsub r v else r) :: nn_isub_rows_where mk A' v
    | _, _ => A
    end.
End NPNum.
