(* Positive (semi-)definite operators in action form; rank-one updates (Sherman-Morrison),
   quadratic form along a line, generalised Cauchy-Schwarz.  Carrier: R. *)
From Coq Require Import List Arith Reals Lra Psatz Lia.
From ML Require Import Ops Vec VecR MatR.
Import ListNotations.
Open Scope R_scope.

Definition qf (A : Rm) (x : Rv) : R := vdotR x (mvmulR A x).
Lemma qf_quadform A x : qf A x = quadformR A x. Proof. reflexivity. Qed.

Definition PDop (d : nat) (A : Rm) : Prop := forall x, wfvR d x -> 0 < vsumsqR x -> 0 < qf A x.

Lemma vsumsq_pos_or_zero (x : Rv) : 0 < vsumsqR x \/ vsumsqR x = 0.
Proof. pose proof (vsumsq_nonneg x). lra. Qed.

(* rank-one updated operators, in action form *)
Definition upA (A : Rm) (v : Rv) (beta : R) (y : Rv) : Rv :=
  vaddR (mvmulR A y) (vscaleR (beta * vdotR (mvmulR A v) y) (mvmulR A v)).
Definition upB (B : Rm) (v : Rv) (alpha : R) (x : Rv) : Rv :=
  vaddR (mvmulR B x) (vscaleR (- alpha * vdotR v x) v).

Lemma cancel2 : forall (x w : Rv) (c1 c2 : R), length x = length w -> c1 + c2 = 0 ->
  vaddR (vaddR x (vscaleR c1 w)) (vscaleR c2 w) = x.
Proof. induction x as [|a x IH]; intros [|b w] c1 c2 H Hc; cbn in *; auto; try discriminate.
  f_equal. - rsimp. nra. - apply IH; auto. Qed.

Theorem sherman_morrison d (A B : Rm) v alpha beta :
  wfmR d d A -> wfmR d d B -> wfvR d v -> symop d A ->
  (forall x, wfvR d x -> mvmulR A (mvmulR B x) = x) ->
  beta * (1 - alpha * vdotR v (mvmulR A v)) = alpha ->
  forall x, wfvR d x -> upA A v beta (upB B v alpha x) = x.
Proof.
  intros [HA _] [HB _] Hv Hs Hinv Hb x Hx. unfold upA, upB, wfv in *.
  assert (LB: length (mvmulR B x) = d) by (rewrite mvmul_length; auto).
  rewrite mvmul_vadd by (rewrite vscale_length; rcong).
  rewrite mvmul_vscale, Hinv by auto.
  rewrite vdot_vadd_r by (rewrite vscale_length; rcong).
  rewrite vdot_vscale_r.
  assert (E1: vdotR (mvmulR A v) (mvmulR B x) = vdotR v x).
  { rewrite Hs by (unfold wfv; auto). rewrite Hinv; auto. }
  rewrite E1. rewrite (vdot_comm (mvmulR A v) v).
  set (p := vdotR v (mvmulR A v)) in *. set (s := vdotR v x).
  assert (LAv: length (mvmulR A v) = d) by (rewrite mvmul_length; auto).
  apply cancel2; [rcong|]. clearbody p s. rsimp.
  replace (beta * (s + - alpha * s * p)) with (s * (beta * (1 - alpha * p))) by ring. rewrite Hb. ring.
Qed.

Lemma qf_line d A x v t : wfmR d d A -> symop d A -> wfvR d x -> wfvR d v ->
  qf A (vaddR x (vscaleR t v)) = qf A x + 2 * t * vdotR x (mvmulR A v) + t * t * qf A v.
Proof.
  intros [HA _] Hs Hx Hv. unfold qf, wfv in *.
  rewrite mvmul_vadd by (rewrite vscale_length; rcong).
  rewrite mvmul_vscale.
  rewrite vdot_vadd_l by (rewrite vscale_length; rcong).
  rewrite !vdot_vadd_r by (rewrite vscale_length, !mvmul_length; rcong).
  rewrite !vdot_vscale_l, !vdot_vscale_r.
  assert (E: vdotR v (mvmulR A x) = vdotR x (mvmulR A v)).
  { rewrite <- Hs by (unfold wfv; auto). apply vdot_comm. }
  rewrite E. rsimp. ring.
Qed.

(* generalised Cauchy-Schwarz for a symmetric PSD operator *)
Lemma gcs d A x v : wfmR d d A -> symop d A -> PSDop d A -> wfvR d x -> wfvR d v ->
  (vdotR x (mvmulR A v))^2 <= qf A x * qf A v.
Proof.
  intros HA Hs Hp Hx Hv.
  pose proof (Hp x Hx) as Px. pose proof (Hp v Hv) as Pv. rewrite <- !qf_quadform in *.
  assert (Hl: forall t, 0 <= qf A x + 2 * t * vdotR x (mvmulR A v) + t * t * qf A v).
  { intro t. assert (W: wfvR d (vaddR x (vscaleR t v))) by (unfold wfv in *; rewrite vadd_length; rewrite ?vscale_length; rcong).
    pose proof (Hp _ W) as H. rewrite <- qf_quadform in H. rewrite (qf_line d) in H by auto. exact H. }
  set (b := vdotR x (mvmulR A v)) in *. set (p := qf A v) in *. set (q := qf A x) in *.
  clearbody b p q.
  destruct (Req_dec p 0) as [Hp0|Hp0].
  - destruct (Req_dec b 0) as [->|Hb]; [rewrite Hp0; lra|].
    exfalso. specialize (Hl (- (q + 1) / (2*b))). rewrite Hp0 in Hl.
    replace (2 * (- (q + 1) / (2 * b)) * b) with (-(q+1)) in Hl by (field; auto). lra.
  - assert (0 < p) by lra.
    specialize (Hl (- b / p)).
    replace (q + 2 * (- b / p) * b + - b / p * (- b / p) * p) with (q - b*b/p) in Hl by (field; lra).
    assert (b*b/p <= q) by lra.
    assert (b*b <= q*p).
    { apply (Rmult_le_compat_r p) in H0; [|lra]. replace (b*b/p*p) with (b*b) in H0 by (field; lra). lra. }
    nra.
Qed.

Lemma PD_PSD d A : PDop d A -> PSDop d A.
Proof. intros H x Hx. destruct (vsumsq_pos_or_zero x) as [P|Z].
  - rewrite <- qf_quadform. apply Rlt_le, H; auto.
  - apply vsumsq_zero_all in Z. unfold quadform.
    assert (E: forall (u w : Rv), Forall (fun a => a = 0) u -> vdotR u w = 0).
    { induction u as [|a u IH]; intros [|b w] Hu; cbn; auto. inversion Hu; subst. rewrite IH by auto. rsimp. ring. }
    rewrite E by auto. lra. Qed.

(* positivity is preserved by A' y = A y + beta (Av . y) Av when beta * (v.Av) > -1 *)
Lemma update_pos d A v beta y : wfmR d d A -> symop d A -> PDop d A -> wfvR d v -> wfvR d y ->
  -1 < beta * qf A v -> 0 < vsumsqR y -> 0 < qf A y + beta * (vdotR (mvmulR A v) y)^2.
Proof.
  intros HA Hs Hp Hv Hy Hb Hy0.
  pose proof (gcs d A y v HA Hs (PD_PSD d A Hp) Hy Hv) as C.
  pose proof (Hp y Hy Hy0) as Hq.
  assert (E: vdotR (mvmulR A v) y = vdotR y (mvmulR A v)) by apply vdot_comm. rewrite E.
  set (b := vdotR y (mvmulR A v)) in *. set (p := qf A v) in *. set (q := qf A y) in *.
  destruct (vsumsq_pos_or_zero v) as [Pv|Zv].
  - pose proof (Hp v Hv Pv) as Ppos. fold p in Ppos. clearbody b p q.
    destruct (Rle_dec 0 beta); [nra|].
    assert (beta * b^2 >= beta * (q * p)) by nra. nra.
  - (* v = 0: then b = 0 *)
    assert (b = 0).
    { unfold b. apply vsumsq_zero_all in Zv.
      assert (Z2: forall (A0 : Rm) (u : Rv), Forall (fun a => a = 0) u -> Forall (fun a => a = 0) (mvmulR A0 u)).
      { intros A0 u Hu. unfold mvmul. apply Forall_forall. intros z Hz. apply in_map_iff in Hz as [r [<- _]].
        clear - Hu. revert u Hu. induction r as [|a r IH]; intros [|c u] Hu; cbn; auto.
        inversion Hu; subst. rewrite IH by auto. rsimp. ring. }
      specialize (Z2 A v Zv). clear - Z2. revert Z2. generalize (mvmulR A v). intro w. revert w.
      induction y as [|a y IH]; intros [|c w] Hw; cbn; auto. inversion Hw; subst. rewrite IH by auto. rsimp. ring. }
    rewrite H. clearbody q. nra.
Qed.
