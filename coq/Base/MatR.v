(* Real-number facts about matrices in action form (forall x). *)
From Coq Require Import List Arith Reals Lra Psatz Lia.
From ML Require Import Ops Vec VecR.
Import ListNotations.
Open Scope R_scope.

Notation maddR := (@madd ROps).
Notation mscaleR := (@mscale ROps).
Notation outerR := (@outer ROps).


Lemma vdot_vzero_l d (x : Rv) : vdotR (vzero d) x = 0.
Proof. rewrite vdot_comm. apply vdot_vzero_r. Qed.

Lemma mvmul_mzero k d (x : Rv) : mvmulR (@mzero ROps k d) x = vzero k.
Proof. induction k; cbn; auto. f_equal; [apply vdot_vzero_l | apply IHk]. Qed.

Lemma mvmul_madd (A : Rm) : forall B x d, wfmR (length A) d A -> wfmR (length A) d B ->
  mvmulR (maddR A B) x = vaddR (mvmulR A x) (mvmulR B x).
Proof.
  induction A as [|r A IH]; intros [|s B] x d [HA1 HA2] [HB1 HB2]; cbn in *; auto; try discriminate.
  inversion HA2; inversion HB2; subst. f_equal.
  - apply vdot_vadd_l. unfold wfv in *; rsimp; congruence.
  - apply (IH B x d); split; auto; lia.
Qed.

Lemma mvmul_outer (u v x : Rv) : mvmulR (outerR u v) x = vscaleR (vdotR v x) u.
Proof. induction u as [|a u IH]; cbn; auto. f_equal; [|apply IH].
  rewrite vdot_vscale_l. rsimp; ring. Qed.

Lemma mvmul_mscale c (A : Rm) x : mvmulR (mscaleR c A) x = vscaleR c (mvmulR A x).
Proof. induction A as [|r A IH]; cbn; auto. f_equal; [apply vdot_vscale_l | apply IH]. Qed.

Lemma outer_wfm (u v : Rv) : wfmR (length u) (length v) (outerR u v).
Proof. split. - unfold outer. apply map_length.
  - unfold outer. apply Forall_forall. intros r Hr. apply in_map_iff in Hr as [a [<- _]].
    unfold wfv. apply vscale_length. Qed.
Lemma mzero_wfm k d : wfmR k d (@mzero ROps k d).
Proof. split. - apply repeat_length. - apply Forall_forall. intros r Hr.
  apply repeat_spec in Hr. subst. apply vzero_length. Qed.
Lemma madd_wfm k d (A : Rm) : forall B, wfmR k d A -> wfmR k d B -> wfmR k d (maddR A B).
Proof.
  revert k. induction A as [|r A IH]; intros k [|s B] [HA1 HA2] [HB1 HB2]; cbn in *; subst; try discriminate.
  - split; auto.
  - inversion HA2; inversion HB2; subst. destruct (IH (length A) B) as [E F]; try (split; auto; lia).
    split; [cbn; rsimp; congruence|]. constructor; auto. unfold wfv in *; rsimp. rewrite vadd_length; rcong.
Qed.

Lemma quadform_madd k d (A B : Rm) x : wfmR k d A -> wfmR k d B -> wfvR k x ->
  quadformR (maddR A B) x = quadformR A x + quadformR B x.
Proof.
  intros HA HB Hx. unfold quadform.
  destruct HA as [HA1 HA2]. destruct HB as [HB1 HB2].
  rewrite (mvmul_madd A B x d) by (split; auto; rcong).
  apply vdot_vadd_r. rewrite !mvmul_length. rcong.
Qed.
Lemma quadform_outer (u x : Rv) : quadformR (outerR u u) x = (vdotR u x)^2.
Proof. unfold quadform. rewrite mvmul_outer, vdot_vscale_r, (vdot_comm x u). rsimp; ring. Qed.
Lemma quadform_mzero k d (x : Rv) : quadformR (@mzero ROps k d) x = 0.
Proof. unfold quadform. rewrite mvmul_mzero. apply vdot_vzero_r. Qed.
Lemma quadform_mscale c (A : Rm) x : quadformR (mscaleR c A) x = c * quadformR A x.
Proof. unfold quadform. rewrite mvmul_mscale. apply vdot_vscale_r. Qed.

(* symmetric operator: (A x) . y = x . (A y) on well-formed vectors *)
Definition symop (d : nat) (A : Rm) : Prop :=
  forall x y, wfvR d x -> wfvR d y -> vdotR (mvmulR A x) y = vdotR x (mvmulR A y).
Definition PSDop (d : nat) (A : Rm) : Prop := forall x, wfvR d x -> 0 <= quadformR A x.

Lemma symop_outer (u : Rv) : symop (length u) (outerR u u).
Proof. intros x y Hx Hy. rewrite !mvmul_outer, vdot_vscale_l, vdot_vscale_r.
  rewrite (vdot_comm x u). rsimp; ring. Qed.
Lemma symop_mzero d : symop d (@mzero ROps d d).
Proof. intros x y _ _. rewrite !mvmul_mzero, vdot_vzero_l, vdot_vzero_r. reflexivity. Qed.
Lemma symop_madd d (A B : Rm) : wfmR d d A -> wfmR d d B -> symop d A -> symop d B -> symop d (maddR A B).
Proof.
  intros HA HB SA SB x y Hx Hy. destruct HA as [HA1 HA2]. destruct HB as [HB1 HB2].
  rewrite !(mvmul_madd A B _ d) by (split; auto; rcong).
  rewrite vdot_vadd_l, vdot_vadd_r by (rewrite !mvmul_length; rcong).
  rewrite SA, SB by auto. reflexivity.
Qed.

(* entrywise symmetry from the action form, through unit vectors *)
Lemma unitv_length d : forall i, length (@unitv ROps d i) = d.
Proof. induction d; intros [|i]; cbn; auto. rewrite vzero_length; auto. Qed.
Lemma vdot_unitv_r d : forall i (x : Rv), length x = d -> (i < d)%nat ->
  vdotR x (unitv d i) = nth i x 0.
Proof.
  induction d; intros i x Hx Hi; [lia|].
  destruct x as [|a x]; [discriminate|]. destruct i as [|i]; cbn.
  - rewrite vdot_vzero_r. rsimp. ring.
  - rewrite IHd by (cbn in Hx; lia). rsimp. ring.
Qed.
Lemma mvmul_nth (A : Rm) x i : (i < length A)%nat ->
  nth i (mvmulR A x) 0 = vdotR (nth i A []) x.
Proof.
  intro H. unfold mvmul.
  rewrite (nth_indep _ 0 (vdotR [] x)) by (rewrite map_length; auto).
  apply (map_nth (fun r => vdotR r x)).
Qed.
Lemma symop_entrywise d (A : Rm) : wfmR d d A -> symop d A ->
  forall i j, (i < d)%nat -> (j < d)%nat -> nth i (nth j A []) 0 = nth j (nth i A []) 0.
Proof.
  intros [HA1 HA2] S i j Hi Hj.
  assert (Wi: wfvR d (unitv d i)) by apply unitv_length.
  assert (Wj: wfvR d (unitv d j)) by apply unitv_length.
  pose proof (S (unitv d i) (unitv d j) Wi Wj) as E.
  rewrite vdot_unitv_r in E by (rewrite ?mvmul_length; auto).
  rewrite (vdot_comm (@unitv ROps d i)), vdot_unitv_r in E by (rewrite ?mvmul_length; auto).
  rewrite !mvmul_nth in E by (rsimp; lia).
  assert (Li: length (nth i A []) = d).
  { rewrite Forall_forall in HA2. apply HA2. apply nth_In. rsimp; lia. }
  assert (Lj: length (nth j A []) = d).
  { rewrite Forall_forall in HA2. apply HA2. apply nth_In. rsimp; lia. }
  rewrite !vdot_unitv_r in E by auto. exact E.
Qed.

(* quadratic form of a weighted sum of outer products: sum_k w_k (b_k . x)^2 *)
From ML Require Import LinAlg.
Notation wgramR := (@wgram ROps).
Fixpoint wsq (w : Rv) (B : Rm) (x : Rv) : R :=
  match w, B with
  | wk :: w', b :: B' => wk * (vdotR b x)^2 + wsq w' B' x
  | _, _ => 0
  end.
Lemma mscale_wfm c k d (A : Rm) : wfmR k d A -> wfmR k d (mscaleR c A).
Proof. intros [H1 H2]. split.
  - unfold mscale. rewrite map_length. exact H1.
  - unfold mscale. apply Forall_forall. intros r Hr. apply in_map_iff in Hr as [r0 [<- Hr0]].
    rewrite Forall_forall in H2. unfold wfv in *. rewrite vscale_length. apply H2; auto. Qed.
Lemma wgram_wfm d : forall (w : Rv) (B : Rm), Forall (wfvR d) B -> wfmR d d (wgramR d w B).
Proof.
  induction w as [|wk w IH]; intros [|b B] H; cbn; try apply mzero_wfm.
  inversion H; subst. apply madd_wfm; [|apply IH; auto].
  apply mscale_wfm. match goal with Hb : wfvR d b |- _ => unfold wfv in Hb; rewrite <- Hb end. apply outer_wfm.
Qed.
Lemma quadform_wgram d : forall (w : Rv) (B : Rm) x, Forall (wfvR d) B -> wfvR d x ->
  quadformR (wgramR d w B) x = wsq w B x.
Proof.
  induction w as [|wk w IH]; intros [|b B] x H Hx; cbn [wgram combine fold_right wsq fst snd];
    try apply quadform_mzero.
  inversion H as [|? ? Hb HB]; subst.
  rewrite (quadform_madd d d); auto.
  - rewrite quadform_mscale, quadform_outer. fold (wgramR d w B). rewrite IH by auto. reflexivity.
  - apply mscale_wfm. unfold wfv in Hb. rewrite <- Hb. apply outer_wfm.
  - apply wgram_wfm; auto.
Qed.
Lemma wsq_nonneg : forall (w : Rv) B x, Forall (fun a => 0 <= a) w -> 0 <= wsq w B x.
Proof.
  induction w as [|wk w IH]; intros [|b B] x H; cbn; try lra.
  inversion H; subst. specialize (IH B x H3). pose proof (pow2_ge_0 (vdotR b x)). nra.
Qed.
(* any non-negative combination of outer products is positive semi-definite *)
Lemma wgram_psd d (w : Rv) (B : Rm) : Forall (wfvR d) B -> Forall (fun a => 0 <= a) w ->
  PSDop d (wgramR d w B).
Proof. intros HB Hw x Hx. rewrite quadform_wgram by auto. apply wsq_nonneg; auto. Qed.

Lemma mvmul_madd_kd k d (A B : Rm) x : wfmR k d A -> wfmR k d B ->
  mvmulR (maddR A B) x = vaddR (mvmulR A x) (mvmulR B x).
Proof. intros [HA1 HA2] [HB1 HB2]. apply (mvmul_madd A B x d); split; auto; rcong. Qed.
Lemma outer_wfm_kd k d (u w : Rv) : wfvR k u -> wfvR d w -> wfmR k d (outerR u w).
Proof. intros Hu Hw. unfold wfv in *. destruct (outer_wfm u w) as [H1 H2]. split.
  - rsimp. congruence.
  - rsimp. rewrite Hw in H2. exact H2. Qed.
