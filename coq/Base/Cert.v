(* Exact-rational certificate of positive definiteness (sound by Proofs/Hom.cert_pd_sound):
   well-formed n x n, exactly symmetric, all successive Schur-complement pivots positive. *)
From Coq Require Import List Arith Bool ZArith QArith.
From ML Require Import Ops Vec NP LinAlg.
Import ListNotations.

Definition qsymmb (n : nat) (M : list (list Q)) : bool :=
  forallb (fun i => forallb (fun j => Qeq_bool (nth j (nth i M []) 0%Q) (nth i (nth j M []) 0%Q)) (seq 0 n)) (seq 0 n).
Definition cert_pd (n : nat) (M : list (list Q)) : bool :=
  @wfmb QOps n n M && qsymmb n M && match @ldl_fuel QOps (S n) M with Some _ => true | None => false end.
